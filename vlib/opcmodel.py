"""Independent OPC reader / builder / rewriter (zipfile + plain lxml only, no python-pptx).

Part names are str with leading '/'. Content-type lookup is case-insensitive (OPC), relationship
target -> member resolution is exact (what the generator produces).
"""
from __future__ import annotations

import io
import os
import posixpath
import re
import zipfile

from lxml import etree

NS_CT = "http://schemas.openxmlformats.org/package/2006/content-types"
NS_REL = "http://schemas.openxmlformats.org/package/2006/relationships"
NS_R = "http://schemas.openxmlformats.org/officeDocument/2006/relationships"
RT_OFFICE_DOCUMENT = "http://schemas.openxmlformats.org/officeDocument/2006/relationships/officeDocument"
RT_CORE_PROPS = "http://schemas.openxmlformats.org/package/2006/relationships/metadata/core-properties"

_plain = etree.XMLParser(remove_blank_text=False, resolve_entities=False)


def remove_dot_segments(path):
    out = []
    for seg in path.split("/"):
        if seg == ".":
            continue
        if seg == "..":
            if len(out) > 1:
                out.pop()
            continue
        out.append(seg)
    return "/".join(out)


def resolve(base_dir, ref):
    """RFC 3986 path resolution of `ref` against directory `base_dir` ('/ppt/slides' or '/')."""
    if ref.startswith("/"):
        return remove_dot_segments(ref)
    base = "/" if base_dir == "/" else base_dir + "/"
    return remove_dot_segments(base + ref)


def dirname(partname):
    if partname == "/":
        return "/"
    d = partname[: partname.rindex("/")]
    return d or "/"


def rels_name(partname):
    if partname == "/":
        return "/_rels/.rels"
    d = dirname(partname)
    fn = partname[partname.rindex("/") + 1:]
    return ("/_rels/%s.rels" % fn) if d == "/" else "%s/_rels/%s.rels" % (d, fn)


def relpath(target, base_dir):
    """own relative reference from base_dir to target (both absolute)."""
    if base_dir == "/":
        return target[1:]
    t = target.split("/")[1:]
    b = base_dir.split("/")[1:]
    i = 0
    while i < len(t) - 1 and i < len(b) and t[i] == b[i]:
        i += 1
    return "/".join([".."] * (len(b) - i) + t[i:])


def ext_of(partname):
    fn = partname[partname.rindex("/") + 1:]
    return fn[fn.rindex(".") + 1:] if "." in fn else ""


class Rel:
    __slots__ = ("id", "type", "mode", "target", "resolved")

    def __init__(self, id, type, mode, target, resolved):
        self.id, self.type, self.mode, self.target, self.resolved = id, type, mode, target, resolved

    def key(self):
        return (self.id, self.type, self.mode, self.resolved if self.mode == "Internal" else self.target)

    def __repr__(self):
        return "Rel(%s,%s,%s,%s)" % (self.id, self.type.rsplit("/", 1)[-1], self.mode,
                                     self.resolved if self.mode == "Internal" else self.target)


class Pkg:
    def __init__(self, members, order=None, dups=()):
        self.members = members            # '/name' -> bytes
        self.order = order or list(members)
        self.dups = list(dups)            # member names that occur more than once in the zip
        self._ct = None

    # ---------------------------------------------------------------- readers
    @classmethod
    def read(cls, src):
        if isinstance(src, (bytes, bytearray)):
            return cls._read_zip(io.BytesIO(bytes(src)))
        if isinstance(src, str) and os.path.isdir(src):
            members = {}
            for root, _dirs, files in os.walk(src):
                for f in files:
                    p = os.path.join(root, f)
                    name = "/" + os.path.relpath(p, src).replace(os.sep, "/")
                    with open(p, "rb") as fh:
                        members[name] = fh.read()
            return cls(members, sorted(members))
        return cls._read_zip(src)

    @classmethod
    def _read_zip(cls, f):
        members, order, dups = {}, [], []
        with zipfile.ZipFile(f) as z:
            for info in z.infolist():
                if info.is_dir():
                    continue
                name = "/" + info.filename
                if name in members:
                    dups.append(name)
                members[name] = z.read(info)
                order.append(name)
        return cls(members, order, dups)

    # ---------------------------------------------------------------- content types
    def content_types(self):
        if self._ct is None:
            root = etree.fromstring(self.members["/[Content_Types].xml"], _plain)
            defaults, overrides = {}, {}
            dd, od = [], []
            for el in root:
                if not isinstance(el.tag, str):
                    continue
                ln = etree.QName(el).localname
                if ln == "Default":
                    k = el.get("Extension").lower()
                    if k in defaults:
                        dd.append(k)
                    defaults[k] = el.get("ContentType")
                elif ln == "Override":
                    k = el.get("PartName").lower()
                    if k in overrides:
                        od.append(k)
                    overrides[k] = el.get("ContentType")
            self._ct = (defaults, overrides, dd, od)
        return self._ct

    def ctype(self, partname):
        defaults, overrides, _, _ = self.content_types()
        if partname.lower() in overrides:
            return overrides[partname.lower()]
        return defaults.get(ext_of(partname).lower())

    # ---------------------------------------------------------------- relationships
    def rels(self, source):
        name = rels_name(source)
        if name not in self.members:
            return []
        root = etree.fromstring(self.members[name], _plain)
        out = []
        base = dirname(source)
        for el in root:
            if not isinstance(el.tag, str) or etree.QName(el).localname != "Relationship":
                continue
            mode = el.get("TargetMode", "Internal")
            tgt = el.get("Target")
            out.append(Rel(el.get("Id"), el.get("Type"), mode, tgt,
                           resolve(base, tgt) if mode == "Internal" else None))
        return out

    def reachable(self):
        """-> (ordered list of reachable part names, {source: [Rel...]} for '/' and every reachable
        part, list of dangling (source, Rel))"""
        seen = []
        seenset = set()
        relmap = {}
        dangling = []
        stack = ["/"]
        while stack:
            src = stack.pop()
            rs = self.rels(src)
            relmap[src] = rs
            for r in rs:
                if r.mode != "Internal":
                    continue
                if r.resolved not in self.members:
                    dangling.append((src, r))
                    continue
                if r.resolved not in seenset:
                    seenset.add(r.resolved)
                    seen.append(r.resolved)
                    stack.append(r.resolved)
        return seen, relmap, dangling

    # ---------------------------------------------------------------- XML references
    def xml_refs(self, partname):
        """set of values of attributes in the officeDocument relationships namespace (r:id, r:embed,
        r:link, r:pict, r:dm ...); None if the member is not well-formed XML."""
        try:
            root = etree.fromstring(self.members[partname], _plain)
        except etree.XMLSyntaxError:
            return None
        out = set()
        pfx = "{%s}" % NS_R
        for el in root.iter():
            if not isinstance(el.tag, str):
                continue
            for k, v in el.attrib.items():
                if k.startswith(pfx):
                    out.add(v)
        return out

    # ---------------------------------------------------------------- writers
    def to_bytes(self, order=None):
        buf = io.BytesIO()
        with zipfile.ZipFile(buf, "w", zipfile.ZIP_DEFLATED) as z:
            for name in (order or self.order):
                z.writestr(name[1:], self.members[name])
        return buf.getvalue()

    def to_dir(self, path):
        for name, blob in self.members.items():
            p = os.path.join(path, *name[1:].split("/"))
            os.makedirs(os.path.dirname(p), exist_ok=True)
            with open(p, "wb") as fh:
                fh.write(blob)

    def copy(self):
        return Pkg(dict(self.members), list(self.order), list(self.dups))

    # ---------------------------------------------------------------- rewriters
    def set_member(self, name, blob):
        if name not in self.members:
            self.order.append(name)
        self.members[name] = blob
        self._ct = None

    def del_member(self, name):
        del self.members[name]
        self.order.remove(name)
        self._ct = None

    def rename_parts(self, mapping):
        """Consistently rename parts: members, their rels items, every relationship target that
        resolves to them (re-written as a relative reference), and Override entries."""
        mapping = {k: v for k, v in mapping.items() if k != v}
        if not mapping:
            return
        assert len(set(mapping.values())) == len(mapping)
        # 1. re-target relationships (computed on old names)
        new_rels = {}
        for name in list(self.members):
            if not name.endswith(".rels"):
                continue
            # source of this rels item
            d, fn = name.rsplit("/", 1)
            if not d.endswith("/_rels") and d != "/_rels":
                continue
            srcdir = d[: -len("/_rels")] or "/"
            src = "/" if fn == ".rels" else (("" if srcdir == "/" else srcdir) + "/" + fn[: -len(".rels")])
            root = etree.fromstring(self.members[name], _plain)
            new_src = mapping.get(src, src)
            changed = new_src != src
            for el in root:
                if not isinstance(el.tag, str) or el.get("TargetMode", "Internal") != "Internal":
                    continue
                tgt = resolve(dirname(src), el.get("Target"))
                new_tgt = mapping.get(tgt, tgt)
                if new_tgt != tgt or changed:
                    el.set("Target", relpath(new_tgt, dirname(new_src)))
                    changed = True
            if changed:
                new_rels[name] = (rels_name(new_src),
                                  etree.tostring(root, xml_declaration=True, encoding="UTF-8", standalone=True))
        # 2. move members (two-phase to allow permutations)
        moved = {}
        for old, new in mapping.items():
            moved[new] = self.members[old]
        for name, (new_name, blob) in new_rels.items():
            moved[new_name] = blob
        for old in list(mapping) + list(new_rels):
            if old in self.members:
                self.del_member(old)
        for new, blob in moved.items():
            self.set_member(new, blob)
        # 3. overrides
        root = etree.fromstring(self.members["/[Content_Types].xml"], _plain)
        low = {k.lower(): v for k, v in mapping.items()}
        for el in root:
            if isinstance(el.tag, str) and etree.QName(el).localname == "Override":
                pn = el.get("PartName")
                if pn.lower() in low:
                    el.set("PartName", low[pn.lower()])
        self.set_member("/[Content_Types].xml",
                        etree.tostring(root, xml_declaration=True, encoding="UTF-8", standalone=True))


# --------------------------------------------------------------------------- builder

def build_content_types(entries):
    """entries: list of (partname, content_type, prefer_default: bool, ext_case_upper: bool).
    Returns [Content_Types].xml bytes in which every part resolves to its content type."""
    defaults = {"rels": "application/vnd.openxmlformats-package.relationships+xml", "xml": "application/xml"}
    overrides = []
    for name, ct, prefer_default, _up in entries:
        ext = ext_of(name).lower()
        if prefer_default and ext and ext not in defaults:
            defaults[ext] = ct
    for name, ct, prefer_default, _up in entries:
        ext = ext_of(name).lower()
        if not (ext and defaults.get(ext) == ct and prefer_default):
            overrides.append((name, ct))
        # a part that prefers Default but lost the race, or has no extension, is overridden
    root = etree.Element("{%s}Types" % NS_CT, nsmap={None: NS_CT})
    upper = {ext_of(n).lower() for n, _c, _p, up in entries if up}
    for ext, ct in defaults.items():
        e = etree.SubElement(root, "{%s}Default" % NS_CT)
        e.set("Extension", ext.upper() if ext in upper else ext)
        e.set("ContentType", ct)
    for name, ct in overrides:
        e = etree.SubElement(root, "{%s}Override" % NS_CT)
        e.set("PartName", name)
        e.set("ContentType", ct)
    return etree.tostring(root, xml_declaration=True, encoding="UTF-8", standalone=True)


def build_rels(rels):
    """rels: list of (id, type, mode, target_string)"""
    root = etree.Element("{%s}Relationships" % NS_REL, nsmap={None: NS_REL})
    for rid, rtype, mode, target in rels:
        e = etree.SubElement(root, "{%s}Relationship" % NS_REL)
        e.set("Id", rid)
        e.set("Type", rtype)
        e.set("Target", target)
        if mode == "External":
            e.set("TargetMode", "External")
        elif mode == "Internal!":
            e.set("TargetMode", "Internal")   # the default written out, as some producers do
    return etree.tostring(root, xml_declaration=True, encoding="UTF-8", standalone=True)


def c14n(blob, strip_ws=True):
    """canonical form of an XML payload; whitespace-only text in element-only content dropped."""
    root = etree.fromstring(blob, _plain)
    if strip_ws:
        for el in root.iter():
            if not isinstance(el.tag, str):
                continue
            if len(el) and el.text is not None and not el.text.strip():
                el.text = None
            if el.tail is not None and not el.tail.strip() and el.getparent() is not None and len(el.getparent()):
                el.tail = None
    return etree.tostring(root, method="c14n")
