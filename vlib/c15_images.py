"""C15 image generator: bytes of small PNG/JPEG/GIF/BMP/TIFF images, deterministic from JSON-able
parameters, plus an own (Pillow-free) reader of the resolution fields the generator writes.

    make(params) -> bytes
    params = {"fmt": "PNG"|"JPEG"|"GIF"|"BMP"|"TIFF", "w": 1..64, "h": 1..64, "mode": str,
              "seed": int, "dpi": <variant>}
    dpi variant (list, first item is the kind):
      ["none"]                     nothing passed to Pillow (PNG: no pHYs, JPEG: JFIF 1:1 aspect,
                                   TIFF: no resolution tags, BMP: header default, GIF: never has one)
      ["pil", x, y]                Pillow's save(dpi=(x, y)) (ints or floats; not GIF)
      ["tiffcm", x, y]             TIFF only: save(resolution=.., resolution_unit=3) (dots per cm)
      ["tiffnounit", x, y]         TIFF only: resolution tags with unit 1 ("no absolute unit")
      ["phys", xppu, yppu, unit]   PNG only: hand-written pHYs chunk (uint32, uint32, unit 0|1)
      ["jfif", unit, xd, yd]       JPEG only: JFIF APP0 density fields overwritten (unit 0|1|2, uint16)
      ["nojfif"]                   JPEG only: the JFIF APP0 segment removed altogether
      ["bmpppm", x, y]             BMP only: biXPelsPerMeter/biYPelsPerMeter overwritten (int32 >= 0)

    sniff(blob) -> "PNG"|"JPEG"|"GIF"|"BMP"|"TIFF"|None      (magic numbers only)
    own_size(blob) -> (w, h) | None                            (header parse: PNG, GIF, BMP, JPEG SOFn)
    own_dpi(blob) -> (x, y) floats | None | "unknown"         (own parse of pHYs / JFIF / BMP header /
                                                               TIFF IFD0 tags 282, 283, 296; None = the file
                                                               states no absolute resolution; "unknown" for
                                                               EXIF-only JPEG and odd TIFF field types)

Only Pillow's *encoders* are used here (and struct/zlib for the hand edits).
"""
from __future__ import annotations

import io
import struct
import zlib

FORMATS = ("PNG", "JPEG", "GIF", "BMP", "TIFF")
MODES = {
    "PNG": ("RGB", "RGBA", "L", "P", "1", "LA", "I;16"),
    "JPEG": ("RGB", "L", "CMYK"),
    "GIF": ("P", "L", "RGB"),      # RGB is quantised by the encoder
    "BMP": ("RGB", "L", "P", "1"),
    "TIFF": ("RGB", "RGBA", "L", "P", "1", "CMYK"),
}
# canonical / acceptable spellings per real format
EXTS = {"PNG": ("png",), "JPEG": ("jpg", "jpeg", "jpe"), "GIF": ("gif",), "BMP": ("bmp",),
        "TIFF": ("tiff", "tif")}
CTYPES = {"PNG": "image/png", "JPEG": "image/jpeg", "GIF": "image/gif", "BMP": "image/bmp",
          "TIFF": "image/tiff"}


def _pixels(mode, w, h, seed):
    """deterministic raw pixel buffer for PIL.Image.frombytes"""
    n = w * h
    s = seed & 0xFFFF
    if mode in ("L", "P"):
        return bytes(((s * 37 + (i % w) * 11 + (i // w) * 7) & 0xFF) for i in range(n))
    if mode == "1":
        stride = (w + 7) // 8
        return bytes(((s * 29 + r * 5 + c * 3) & 0xFF) for r in range(h) for c in range(stride))
    if mode == "LA":
        return bytes(b for i in range(n) for b in ((s * 37 + i * 11) & 0xFF, (255 - i * 3 - s) & 0xFF))
    if mode == "I;16":
        return b"".join(struct.pack("<H", (s * 257 + i * 1021) & 0xFFFF) for i in range(n))
    if mode == "RGB":
        return bytes(b for i in range(n) for b in (
            (s * 37 + (i % w) * 11) & 0xFF, (s * 17 + (i // w) * 13) & 0xFF, (s >> 8) * 5 + (i * 3) & 0xFF))
    if mode in ("RGBA", "CMYK"):
        return bytes(b for i in range(n) for b in (
            (s * 37 + (i % w) * 11) & 0xFF, (s * 17 + (i // w) * 13) & 0xFF, ((s >> 8) * 5 + i * 3) & 0xFF,
            (200 + i + s) & 0xFF))
    raise ValueError(mode)


def _png_insert_phys(blob, xppu, yppu, unit):
    assert blob[:8] == b"\x89PNG\r\n\x1a\n"
    # IHDR is the first chunk: 8 sig + 4 len + 4 type + 13 data + 4 crc = 33
    assert blob[12:16] == b"IHDR"
    head, rest = blob[:33], blob[33:]
    assert b"pHYs" not in blob[:200]
    data = struct.pack(">IIB", xppu, yppu, unit)
    chunk = struct.pack(">I", len(data)) + b"pHYs" + data + struct.pack(">I", zlib.crc32(b"pHYs" + data) & 0xFFFFFFFF)
    return head + chunk + rest


def _jpeg_app0(blob):
    """-> (offset of the APP0 marker, segment length incl. the 2 length bytes) of a leading JFIF APP0"""
    assert blob[:2] == b"\xff\xd8"
    if blob[2:4] != b"\xff\xe0":
        return None
    ln = struct.unpack(">H", blob[4:6])[0]
    if blob[6:11] != b"JFIF\x00":
        return None
    return 2, ln


def _jpeg_set_density(blob, unit, xd, yd):
    loc = _jpeg_app0(blob)
    assert loc is not None, "encoder wrote no JFIF APP0"
    b = bytearray(blob)
    # marker(2) len(2) 'JFIF\0'(5) version(2) -> units at +11 from marker offset
    off = loc[0] + 2 + 2 + 5 + 2
    b[off] = unit
    b[off + 1: off + 5] = struct.pack(">HH", xd, yd)
    return bytes(b)


def _jpeg_strip_app0(blob):
    loc = _jpeg_app0(blob)
    assert loc is not None
    return blob[:2] + blob[2 + 2 + loc[1]:]


def _bmp_set_ppm(blob, x, y):
    assert blob[:2] == b"BM"
    hdr = struct.unpack("<I", blob[14:18])[0]
    assert hdr >= 40
    b = bytearray(blob)
    b[14 + 24: 14 + 32] = struct.pack("<ii", x, y)
    return bytes(b)


def make(params):
    from PIL import Image

    fmt, w, h = params["fmt"], int(params["w"]), int(params["h"])
    mode = params.get("mode") or MODES[fmt][0]
    seed = int(params.get("seed", 0))
    dpi = list(params.get("dpi") or ["none"])
    kind = dpi[0]
    if mode not in MODES[fmt]:
        mode = MODES[fmt][0]
    if fmt == "JPEG" and kind in ("jfif", "nojfif") and mode == "CMYK":
        mode = "RGB"  # the encoder writes no JFIF segment for CMYK (Adobe APP14 instead)
    im = Image.frombytes(mode, (w, h), _pixels(mode, w, h, seed))
    if mode == "P":
        im.putpalette([(seed * 7 + i * 5) & 0xFF for i in range(768)])
    kw = {}
    if kind == "pil" and fmt != "GIF":
        kw["dpi"] = (dpi[1], dpi[2])
    elif kind == "tiffcm" and fmt == "TIFF":
        kw.update(resolution_unit=3, x_resolution=dpi[1], y_resolution=dpi[2])
    elif kind == "tiffnounit" and fmt == "TIFF":
        kw.update(resolution_unit=1, x_resolution=dpi[1], y_resolution=dpi[2])
    if fmt == "JPEG":
        kw["quality"] = 90
    buf = io.BytesIO()
    im.save(buf, fmt, **kw)
    blob = buf.getvalue()
    if kind == "phys" and fmt == "PNG":
        blob = _png_insert_phys(blob, int(dpi[1]), int(dpi[2]), int(dpi[3]))
    elif kind == "jfif" and fmt == "JPEG":
        blob = _jpeg_set_density(blob, int(dpi[1]), int(dpi[2]), int(dpi[3]))
    elif kind == "nojfif" and fmt == "JPEG":
        blob = _jpeg_strip_app0(blob)
    elif kind == "bmpppm" and fmt == "BMP":
        blob = _bmp_set_ppm(blob, int(dpi[1]), int(dpi[2]))
    return blob


# --------------------------------------------------------------------------- own readers

def sniff(blob):
    if blob[:8] == b"\x89PNG\r\n\x1a\n":
        return "PNG"
    if blob[:3] == b"\xff\xd8\xff":
        return "JPEG"
    if blob[:6] in (b"GIF87a", b"GIF89a"):
        return "GIF"
    if blob[:2] == b"BM":
        return "BMP"
    if blob[:4] in (b"II*\x00", b"MM\x00*"):
        return "TIFF"
    return None


def own_size(blob):
    """pixel size from the header, Pillow-free (PNG, GIF, BMP; None otherwise)"""
    f = sniff(blob)
    if f == "PNG":
        return struct.unpack(">II", blob[16:24])
    if f == "GIF":
        return struct.unpack("<HH", blob[6:10])
    if f == "BMP":
        w, h = struct.unpack("<ii", blob[18:26])
        return (w, abs(h))
    if f == "JPEG":
        i = 2
        while i + 4 <= len(blob):
            if blob[i] != 0xFF:
                return None
            m = blob[i + 1]
            if m in (0xD8, 0x01) or 0xD0 <= m <= 0xD7:
                i += 2
                continue
            ln = struct.unpack(">H", blob[i + 2:i + 4])[0]
            if m in (0xC0, 0xC1, 0xC2, 0xC3, 0xC5, 0xC6, 0xC7, 0xC9, 0xCA, 0xCB, 0xCD, 0xCE, 0xCF):
                hh, ww = struct.unpack(">HH", blob[i + 5:i + 9])
                return (ww, hh)
            i += 2 + ln
        return None
    return None


def own_dpi(blob):
    """resolution in dots per inch read without Pillow: (x, y) | None (no absolute resolution in
    the file) | "unknown" (format not parsed here)"""
    f = sniff(blob)
    if f == "GIF":
        return None
    if f == "PNG":
        i = 8
        while i + 8 <= len(blob):
            ln, typ = struct.unpack(">I4s", blob[i:i + 8])
            if typ == b"pHYs":
                x, y, unit = struct.unpack(">IIB", blob[i + 8:i + 17])
                if unit != 1:
                    return None
                return (x * 0.0254, y * 0.0254)
            if typ in (b"IDAT", b"IEND"):
                return None
            i += 12 + ln
        return None
    if f == "JPEG":
        loc = _jpeg_app0(blob)
        if loc is None:
            return "unknown" if b"Exif\x00\x00" in blob[:4096] else None
        off = loc[0] + 11
        unit = blob[off]
        xd, yd = struct.unpack(">HH", blob[off + 1:off + 5])
        if unit == 1:
            return (float(xd), float(yd))
        if unit == 2:
            return (xd * 2.54, yd * 2.54)
        return "unknown" if b"Exif\x00\x00" in blob[:4096] else None
    if f == "BMP":
        hdr = struct.unpack("<I", blob[14:18])[0]
        if hdr < 40:
            return None
        x, y = struct.unpack("<ii", blob[38:46])
        return (x / 39.3701, y / 39.3701)
    if f == "TIFF":
        return _tiff_dpi(blob)
    return "unknown"


def _tiff_dpi(blob):
    """TIFF 6.0: XResolution (282) / YResolution (283) have no default; ResolutionUnit (296)
    defaults to 2 (inch); 3 = centimetre; 1 = no absolute unit."""
    e = "<" if blob[:2] == b"II" else ">"
    try:
        (off,) = struct.unpack(e + "I", blob[4:8])
        (n,) = struct.unpack(e + "H", blob[off:off + 2])
        tags = {}
        for i in range(n):
            ent = blob[off + 2 + 12 * i: off + 14 + 12 * i]
            tag, typ, cnt = struct.unpack(e + "HHI", ent[:8])
            if tag not in (282, 283, 296):
                continue
            if cnt != 1:
                return "unknown"
            if typ == 3:
                tags[tag] = float(struct.unpack(e + "H", ent[8:10])[0])
            elif typ == 4:
                tags[tag] = float(struct.unpack(e + "I", ent[8:12])[0])
            elif typ == 5:
                (vo,) = struct.unpack(e + "I", ent[8:12])
                num, den = struct.unpack(e + "II", blob[vo:vo + 8])
                if den == 0:
                    return "unknown"
                tags[tag] = num / den
            else:
                return "unknown"
    except struct.error:
        return "unknown"
    if 282 not in tags or 283 not in tags:
        return None
    unit = tags.get(296, 2.0)
    if unit == 2.0:
        return (tags[282], tags[283])
    if unit == 3.0:
        return (tags[282] * 2.54, tags[283] * 2.54)
    return None
