"""String strategy and pure classifiers for C05 (caller strings are data, never markup).

`markup_text(max_len, fname)` draws non-empty strings over the XML 1.0 `Char` production
    #x9 | #xA | #xD | [#x20-#xD7FF] | [#xE000-#xFFFD] | [#x10000-#x10FFFF]
built from tokens so that what an unescaped or half-escaped template sink gets wrong is dense:
the five markup characters alone and in pairs, attribute-breakers (`" x="`, `"/>`), element- and
comment-like fragments, CDATA open/close, processing-instruction openers, defined / undefined /
numeric entity look-alikes (`&amp;`, `&x;`, `&#10;`, `&#0;`), `%`/`{}` formatting directives (the sinks
are %-templates and str.format templates), CR / LF / TAB (attribute-value and end-of-line
normalisation), leading / trailing / only blanks, and some unusual-but-legal code points.
With `fname=True` the string is a legal POSIX file base name stem: no '/', and short enough that the
name plus a suffix fits in 255 UTF-8 bytes (NUL is not an XML Char anyway).

Nothing here imports the library under test.
"""
from hypothesis import strategies as st

MARKUP = ["&", "<", ">", '"', "'"]
PAIRS = ['&<', '<>', '"\'', '&"', '<"', '>"', "&&", "<<", '""', "''", '&;', '&#', "<'", "]>"]
ATTR_BREAK = ['" x="', '"/>', '">', "'/>", '" ', '"="', '\'="', ' x="y', '"x', 'x"']
ELEM_LIKE = ["<a>", "</a>", "<a/>", "<a:t>", "</c:v>", "</p:cNvPr>", "<p:sp/>", "<x y='z'>", "<!--", "-->",
             "<!-- x -->", "<![CDATA[", "]]>", "<![CDATA[x]]>", "<?", "?>", "<?x y?>", "<!DOCTYPE", "<!ENTITY",
             "</", "/>", "<100", ">=1", "[<100]0;0.0", '0.0"kg"', "#,##0 \"&\"", "[Red]-0", "a&b", "R&D", "AT&T"]
ENTITY_LIKE = ["&amp;", "&lt;", "&gt;", "&quot;", "&apos;", "&x;", "&nbsp;", "&#10;", "&#13;", "&#x26;", "&#38;",
               "&#0;", "&#x;", "&#", "&amp", "&;", "&amp;amp;", "&#60;"]
FORMAT_LIKE = ["%", "%s", "%d", "%%", "%(x)s", "{", "}", "{}", "{0}", "{x}", "{{", "}}", "{number_format}",
               "{nsdecls}", "%%s",
               # URI escapes: stored as typed, never decoded
               "%20", "%26", "%3C", "%25", "%2F", "%C3%A9"]
CRS = ["\r", "\r\n", "\n\r", "\r\r"]
WS = ["\n", "\t", " ", "  ", "\n\n", " \t", "\t\n"]
PLAIN = list("abcxyzAZ019") + ["_", "-", ".", ";", "#", "]", "[", ":", "=", "/", "\\", "x", "x", "m"]
ODD = ["\u00e9", "\u0085", "\u00a0", "\u2028", "\u2029", "\ufeff", "\ufffd", "\ud7ff", "\ue000", "\u0301",
       "\u4e2d", "\u202e", "\x7f", "\x80", "\x9f", "\U0001f600", "\U00010000", "\U0010ffff", "\ufdd0"]
MARKUP_CHARS = frozenset("&<>\"'")


def _token():
    pools = [
        (6, st.sampled_from(MARKUP)),
        (3, st.sampled_from(["<", '"', "'", "<", ">", "'"])),
        (2, st.sampled_from(PAIRS)),
        (3, st.sampled_from(ATTR_BREAK)),
        (4, st.sampled_from(ELEM_LIKE)),
        (3, st.sampled_from(ENTITY_LIKE)),
        (2, st.sampled_from(FORMAT_LIKE)),
        (2, st.sampled_from(CRS)),
        (2, st.sampled_from(WS)),
        (5, st.sampled_from(PLAIN)),
        (2, st.sampled_from(ODD)),
        (1, st.characters(min_codepoint=0x20, max_codepoint=0xD7FF)),
        (1, st.characters(min_codepoint=0xE000, max_codepoint=0xFFFD)),
        (1, st.characters(min_codepoint=0x10000, max_codepoint=0x10FFFF)),
    ]
    flat = []
    for w, s in pools:
        flat.extend([s] * w)
    return st.one_of(*flat)


def is_xml_char(ch):
    o = ord(ch)
    return o in (0x9, 0xA, 0xD) or 0x20 <= o <= 0xD7FF or 0xE000 <= o <= 0xFFFD or 0x10000 <= o <= 0x10FFFF


def in_domain(s, fname=False, max_len=None):
    if not isinstance(s, str) or s == "":
        return False
    if not all(is_xml_char(c) for c in s):
        return False
    if max_len is not None and len(s) > max_len:
        return False
    if fname and ("/" in s or s in (".", "..") or len(s.encode("utf-8")) > 200):
        return False
    return True


def _clip(s, max_len, fname):
    s = s[:max_len]
    if fname:
        s = s.replace("/", "\\")
        while len(s.encode("utf-8")) > 200:
            s = s[:-1]
        if s in (".", ".."):  # directory entries, not file names
            s += "x"
    return s


def markup_text(max_len=24, fname=False, min_tokens=1):
    """Non-empty str of <= max_len code points (see module docstring). `min_tokens` > 1 drops the single-token
    shapes (used to make parallel shards draw different strings)."""
    tok = _token()
    # (blank-only strings come from `blank` below; a blank-only token list becomes a blank-edged string)
    general = st.lists(tok, min_size=min_tokens, max_size=6 + min_tokens).map("".join).map(
        lambda x: x if x.strip(" \t\r\n") else "a" + x)
    single = st.one_of(st.sampled_from(MARKUP + ["\r", "\n", "\t", " ", "]]>", "&amp;", "%s", "{}"]), tok)
    # one interesting token embedded in plain text (keeps the failure cause unambiguous)
    embedded = st.tuples(st.sampled_from(["", "a", "ab ", " "]), tok, st.sampled_from(["", "z", " yz", " "])).map("".join)
    # blank-only
    blank = st.lists(st.sampled_from([" ", "\t", "\n", "\r"]), min_size=1, max_size=4).map("".join)
    longish = st.tuples(st.lists(tok, min_size=1, max_size=5).map("".join),
                        st.sampled_from([30, 60, 120, 200])).map(lambda t: (t[0] * (t[1] // max(1, len(t[0])) + 1))[:t[1]])
    nonblank = st.one_of(general, general, general, general, embedded, embedded, embedded, single, single,
                         longish).map(lambda x: x if x.strip(" \t\r\n") else "a" + x)
    if min_tokens > 1:
        nonblank = st.one_of(general, general, general, general, general, embedded, longish).map(
            lambda x: x if x.strip(" \t\r\n") else "a" + x)
        return st.one_of(*([nonblank] * 12 + [blank])).map(lambda x: _clip(x, max_len, fname)).filter(lambda x: x != "")
    s = st.one_of(*([nonblank] * 6 + [blank]))
    return s.map(lambda x: _clip(x, max_len, fname)).filter(lambda x: x != "")


# ------------------------------------------------------------------ classification (pure)

def has_markup(s):
    return any(c in MARKUP_CHARS for c in s)


def nontrivial(s):
    """C05 NT rule: the string holds at least one of & < > " ' or a carriage return."""
    return has_markup(s) or "\r" in s


def classes_of(s):
    out = []
    for ch, nm in (("&", "amp"), ("<", "lt"), (">", "gt"), ('"', "quot"), ("'", "apos")):
        if ch in s:
            out.append(nm)
    if "]]>" in s:
        out.append("cdata-end")
    if "<![CDATA[" in s:
        out.append("cdata-open")
    if "&#" in s or any(e in s for e in ("&amp;", "&lt;", "&gt;", "&quot;", "&apos;")):
        out.append("entity-like")
    if "<!--" in s or "-->" in s:
        out.append("comment-like")
    if "<?" in s:
        out.append("pi-like")
    if "%" in s or "{" in s or "}" in s:
        out.append("format-like")
    if "\r" in s:
        out.append("cr")
    if "\n" in s:
        out.append("lf")
    if "\t" in s:
        out.append("tab")
    if s.strip(" \t\r\n") == "":
        out.append("blank-only")
    elif s[0] in " \t\r\n" or s[-1] in " \t\r\n":
        out.append("blank-edge")
    if any(ord(c) > 0x7E for c in s):
        out.append("non-ascii")
    if any(ord(c) > 0xFFFF for c in s):
        out.append("astral")
    if len(s) > 100:
        out.append("len>100")
    if not out:
        out.append("plain")
    return out
