"""C13 helpers: plain-lxml reading of placeholder populations, the expected-geometry model
(slide -> layout by idx -> master by mapped type; notes slide -> notes master by type) and an
in-memory builder of decks with generated slide layouts / slide master / notes master.

Nothing here imports python-pptx.  Parts are always re-parsed from their serialized blob with the
default lxml parser, so no python-pptx element class is involved in computing expected values.
"""
import copy
import itertools

from lxml import etree

from . import opcmodel
from .core import REPO, HarnessError

NS_P = "http://schemas.openxmlformats.org/presentationml/2006/main"
NS_A = "http://schemas.openxmlformats.org/drawingml/2006/main"
NS_R = "http://schemas.openxmlformats.org/officeDocument/2006/relationships"
NS_CT = "http://schemas.openxmlformats.org/package/2006/content-types"
NS_PR = "http://schemas.openxmlformats.org/package/2006/relationships"
NSMAP = {"p": NS_P, "a": NS_A, "r": NS_R}

RT_BASE = "http://schemas.openxmlformats.org/officeDocument/2006/relationships/"
RT_LAYOUT = RT_BASE + "slideLayout"
RT_MASTER = RT_BASE + "slideMaster"
RT_SLIDE = RT_BASE + "slide"
RT_NOTES_MASTER = RT_BASE + "notesMaster"
RT_NOTES_SLIDE = RT_BASE + "notesSlide"
RT_THEME = RT_BASE + "theme"
RT_OFFICE_DOC = RT_BASE + "officeDocument"
CT_NOTES_MASTER = "application/vnd.openxmlformats-officedocument.presentationml.notesMaster+xml"
CT_THEME = "application/vnd.openxmlformats-officedocument.theme+xml"

_P = "{%s}" % NS_P
_A = "{%s}" % NS_A
SHAPE_TAGS = tuple(_P + t for t in ("sp", "grpSp", "graphicFrame", "cxnSp", "pic", "contentPart"))

# ISO/IEC 29500-1 19.7.10 ST_PlaceholderType (the subset legal on a slide layout) ----------------
LAYOUT_TYPES = ["title", "ctrTitle", "subTitle", "body", "obj", "chart", "tbl", "clipArt", "dgm",
                "media", "pic", "dt", "ftr", "sldNum"]
LATENT = ("dt", "ftr", "sldNum")                # not instantiated on a new slide
NOTES_TYPES = ["hdr", "dt", "sldImg", "body", "ftr", "sldNum"]
NOTES_CLONED = ("sldImg", "body", "sldNum")     # instantiated on a new notes slide
# layout placeholder type -> master placeholder type it inherits from (a master has only
# title, body, dt, ftr, sldNum; every content-like placeholder follows the body placeholder)
MASTER_OF = {
    "title": "title", "ctrTitle": "title",
    "subTitle": "body", "body": "body", "obj": "body", "chart": "body", "tbl": "body",
    "clipArt": "body", "dgm": "body", "media": "body", "pic": "body",
    "dt": "dt", "ftr": "ftr", "sldNum": "sldNum",
}
# PP_PLACEHOLDER member name -> XML token (own table, from the enumeration's documentation)
ENUM_NAME_TO_TOKEN = {
    "TITLE": "title", "CENTER_TITLE": "ctrTitle", "SUBTITLE": "subTitle", "BODY": "body",
    "OBJECT": "obj", "CHART": "chart", "TABLE": "tbl", "BITMAP": "clipArt", "ORG_CHART": "dgm",
    "MEDIA_CLIP": "media", "PICTURE": "pic", "DATE": "dt", "FOOTER": "ftr",
    "SLIDE_NUMBER": "sldNum", "HEADER": "hdr", "SLIDE_IMAGE": "sldImg",
}

_plain = etree.XMLParser(resolve_entities=False, remove_blank_text=False)


def parse(blob):
    return etree.fromstring(bytes(blob), _plain)


class Ph(object):
    """One placeholder shape read from XML (effective p:ph attribute values, own geometry)."""

    __slots__ = ("tag", "id", "name", "type", "idx", "orient", "sz", "raw", "has_xfrm",
                 "x", "y", "cx", "cy")

    def key(self):
        return (self.type, self.idx, self.orient, self.sz)

    def own(self):
        return (self.x, self.y, self.cx, self.cy)

    def __repr__(self):
        return "Ph(%s id=%s %r type=%s idx=%s orient=%s sz=%s xfrm=%s%r)" % (
            self.tag, self.id, self.name, self.type, self.idx, self.orient, self.sz,
            self.has_xfrm, self.own())


def _int(v):
    return None if v is None else int(v)


def _xfrm_of(shape):
    ln = etree.QName(shape).localname
    if ln == "graphicFrame":
        return shape.find(_P + "xfrm")
    if ln == "grpSp":
        pr = shape.find(_P + "grpSpPr")
    else:
        pr = shape.find(_P + "spPr")
    return None if pr is None else pr.find(_A + "xfrm")


def _ph_of(shape):
    first = None
    for ch in shape:
        if isinstance(ch.tag, str):
            first = ch
            break
    if first is None:
        return None, None
    nvpr = first.find(_P + "nvPr")
    cnv = first.find(_P + "cNvPr")
    if nvpr is None:
        return None, cnv
    return nvpr.find(_P + "ph"), cnv


def sp_tree(root):
    csld = root.find(_P + "cSld")
    if csld is None:
        raise HarnessError("no p:cSld in %s" % root.tag)
    return csld.find(_P + "spTree")


def placeholders(root):
    """Placeholder shapes that are direct children of the shape tree, in document order."""
    out = []
    for sh in sp_tree(root):
        if sh.tag not in SHAPE_TAGS:
            continue
        ph, cnv = _ph_of(sh)
        if ph is None:
            continue
        p = Ph()
        p.tag = etree.QName(sh).localname
        p.id = _int(cnv.get("id")) if cnv is not None else None
        p.name = cnv.get("name") if cnv is not None else None
        p.raw = dict(ph.attrib)
        # defaults of CT_Placeholder (pml.xsd): type=obj orient=horz sz=full idx=0
        p.type = ph.get("type", "obj")
        p.idx = int(ph.get("idx", "0"))
        p.orient = ph.get("orient", "horz")
        p.sz = ph.get("sz", "full")
        xfrm = _xfrm_of(sh)
        p.has_xfrm = xfrm is not None
        p.x = p.y = p.cx = p.cy = None
        if xfrm is not None:
            off, ext = xfrm.find(_A + "off"), xfrm.find(_A + "ext")
            if off is not None:
                p.x, p.y = _int(off.get("x")), _int(off.get("y"))
            if ext is not None:
                p.cx, p.cy = _int(ext.get("cx")), _int(ext.get("cy"))
        out.append(p)
    return out


def nested_placeholder_count(root):
    """p:ph elements that are not on a direct child of the shape tree (inside groups)."""
    tree = sp_tree(root)
    total = sum(1 for _ in tree.iter(_P + "ph"))
    return total - len(placeholders(root))


def all_names(root):
    """names of every shape in the part (any depth), document order."""
    return [c.get("name") for c in sp_tree(root).iter(_P + "cNvPr")][1:]


def sld_id_list(prs_root):
    lst = prs_root.find(_P + "sldIdLst")
    if lst is None:
        return []
    return [(e.get("id"), e.get("{%s}id" % NS_R)) for e in lst if isinstance(e.tag, str)]


# ------------------------------------------------------------------ expected geometry

def _alts(own_ph, base_vals):
    """acceptable (x, y, cx, cy) tuples for a placeholder with own geometry `own_ph` inheriting
    from a base whose effective values are `base_vals` (4-tuple, entries may be None)."""
    per = []
    for v, b in zip(own_ph.own(), base_vals):
        if v is not None:
            per.append((v,))
        elif own_ph.has_xfrm:
            # a:xfrm present but without a:off / a:ext: text is silent whether the missing half is
            # inherited or absent -> both readings accepted
            per.append((b, None) if b is not None else (None,))
        else:
            per.append((b,))
    return set(itertools.product(*per))


def master_effective(master_phs, mapped_type):
    """list of candidate 4-tuples a layout placeholder can inherit (first match is what
    PowerPoint uses; with duplicate master placeholders of one type any of them is accepted)."""
    c = [m.own() for m in master_phs if m.type == mapped_type]
    return c or [(None, None, None, None)]


def layout_geom_alternatives(lay_ph, master_phs):
    mapped = MASTER_OF.get(lay_ph.type)
    if mapped is None:
        bases = [(None, None, None, None)]
    else:
        bases = master_effective(master_phs, mapped)
    out = set()
    for b in bases:
        out |= _alts(lay_ph, b)
    return out


def slide_geom_expectation(pos, expected_phs, layout_phs, master_phs):
    """-> (set of acceptable tuples, path-class string) for the slide placeholder cloned from
    expected_phs[pos].  The counterpart is the layout placeholder with the same idx; when the
    layout uses one idx more than once (ill-formed, the link is ambiguous) the geometry of any
    layout placeholder with that idx is accepted."""
    me = expected_phs[pos]
    same_idx = [p for p in layout_phs if p.idx == me.idx]
    cands = same_idx if len(same_idx) > 1 else [me]
    acc = set()
    for c in cands:
        acc |= layout_geom_alternatives(c, master_phs)
    if len(same_idx) > 1:
        path = "dup-idx"
    elif all(v is not None for v in me.own()):
        path = "layout-own"
    elif me.has_xfrm:
        path = "layout-partial-xfrm"
    else:
        mapped = MASTER_OF.get(me.type)
        n = sum(1 for m in master_phs if m.type == mapped)
        path = "via-master:%s" % me.type if n else "no-master-match:%s" % me.type
    return acc, path


# ------------------------------------------------------------------ deck builder

_BASE = {}


def base_pkg():
    if "pkg" not in _BASE:
        import os
        _BASE["pkg"] = opcmodel.Pkg.read(os.path.join(REPO, "src/pptx/templates/default.pptx"))
    return _BASE["pkg"].copy()


def _sub(parent, tag, **attrs):
    e = etree.SubElement(parent, tag)
    for k, v in attrs.items():
        e.set(k, v)
    return e


def _xfrm(parent, g, insert_first=True):
    """g = [x, y, cx, cy, mode]; mode full|off|ext|empty"""
    if g is None:
        return
    x, y, cx, cy, mode = g
    xf = etree.Element(_A + "xfrm")
    if mode in ("full", "off"):
        _sub(xf, _A + "off", x=str(x), y=str(y))
    if mode in ("full", "ext"):
        _sub(xf, _A + "ext", cx=str(cx), cy=str(cy))
    parent.insert(0, xf)


_TEXT_TYPES = ("title", "ctrTitle", "subTitle", "body", "obj", "dt", "ftr", "sldNum", "hdr", None)


def build_shape(item, shape_id):
    """XML element for one generated shape-tree member (see c13.py for the item grammar)."""
    k = item["k"]
    name = item.get("n", "")
    if k == "ph":
        sp = etree.Element(_P + "sp", nsmap=NSMAP)
        nv = _sub(sp, _P + "nvSpPr")
        _sub(nv, _P + "cNvPr", id=str(shape_id), name=name)
        c = _sub(nv, _P + "cNvSpPr")
        _sub(c, _A + "spLocks", noGrp="1")
        nvpr = _sub(nv, _P + "nvPr")
        ph = _sub(nvpr, _P + "ph")
        # attribute order of CT_Placeholder is free; write in schema order
        if item.get("t") is not None:
            ph.set("type", item["t"])
        if item.get("orient") is not None:
            ph.set("orient", item["orient"])
        if item.get("sz") is not None:
            ph.set("sz", item["sz"])
        if item.get("idx") is not None:
            ph.set("idx", str(item["idx"]))
        if item.get("prompt"):
            ph.set("hasCustomPrompt", "1")
        sppr = _sub(sp, _P + "spPr")
        _xfrm(sppr, item.get("g"))
        if item.get("t") in _TEXT_TYPES:
            tx = _sub(sp, _P + "txBody")
            _sub(tx, _A + "bodyPr")
            _sub(tx, _A + "lstStyle")
            p = _sub(tx, _A + "p")
            _sub(p, _A + "endParaRPr", lang="en-US")
        return sp
    if k == "sp":  # ordinary text box, not a placeholder
        sp = etree.Element(_P + "sp", nsmap=NSMAP)
        nv = _sub(sp, _P + "nvSpPr")
        _sub(nv, _P + "cNvPr", id=str(shape_id), name=name)
        _sub(nv, _P + "cNvSpPr", txBox="1")
        _sub(nv, _P + "nvPr")
        sppr = _sub(sp, _P + "spPr")
        _xfrm(sppr, [10, 20, 30, 40, "full"])
        g = _sub(sppr, _A + "prstGeom", prst="rect")
        _sub(g, _A + "avLst")
        return sp
    if k == "cxn":
        cx = etree.Element(_P + "cxnSp", nsmap=NSMAP)
        nv = _sub(cx, _P + "nvCxnSpPr")
        _sub(nv, _P + "cNvPr", id=str(shape_id), name=name)
        _sub(nv, _P + "cNvCxnSpPr")
        _sub(nv, _P + "nvPr")
        sppr = _sub(cx, _P + "spPr")
        _xfrm(sppr, [1, 2, 3, 4, "full"])
        g = _sub(sppr, _A + "prstGeom", prst="line")
        _sub(g, _A + "avLst")
        return cx
    if k == "grp":  # group holding one ordinary shape whose name is the group's name + "x"
        grp = etree.Element(_P + "grpSp", nsmap=NSMAP)
        nv = _sub(grp, _P + "nvGrpSpPr")
        _sub(nv, _P + "cNvPr", id=str(shape_id), name=name)
        _sub(nv, _P + "cNvGrpSpPr")
        _sub(nv, _P + "nvPr")
        gp = _sub(grp, _P + "grpSpPr")
        xf = _sub(gp, _A + "xfrm")
        _sub(xf, _A + "off", x="5", y="6")
        _sub(xf, _A + "ext", cx="7", cy="8")
        _sub(xf, _A + "chOff", x="5", y="6")
        _sub(xf, _A + "chExt", cx="7", cy="8")
        grp.append(build_shape({"k": "sp", "n": item.get("cn", name)}, shape_id + 1000))
        return grp
    raise HarnessError("unknown shape kind %r" % (k,))


def replace_population(blob, items, id_step=1):
    """Replace every shape of the part's shape tree by the generated `items`."""
    root = parse(blob)
    tree = sp_tree(root)
    for ch in list(tree):
        if ch.tag in SHAPE_TAGS:
            tree.remove(ch)
    anchor = tree.find(_P + "extLst")
    sid = 2
    for it in items:
        el = build_shape(it, sid)
        sid += max(1, id_step)
        if anchor is not None:
            anchor.addprevious(el)
        else:
            tree.append(el)
    return etree.tostring(root, xml_declaration=True, encoding="UTF-8", standalone=True)


_NOTES_MASTER_XML = (
    '<?xml version="1.0" encoding="UTF-8" standalone="yes"?>\n'
    '<p:notesMaster xmlns:a="%s" xmlns:r="%s" xmlns:p="%s"><p:cSld><p:bg><p:bgRef idx="1001">'
    '<a:schemeClr val="bg1"/></p:bgRef></p:bg><p:spTree><p:nvGrpSpPr><p:cNvPr id="1" name=""/>'
    '<p:cNvGrpSpPr/><p:nvPr/></p:nvGrpSpPr><p:grpSpPr><a:xfrm><a:off x="0" y="0"/>'
    '<a:ext cx="0" cy="0"/><a:chOff x="0" y="0"/><a:chExt cx="0" cy="0"/></a:xfrm></p:grpSpPr>'
    '</p:spTree></p:cSld><p:clrMap bg1="lt1" tx1="dk1" bg2="lt2" tx2="dk2" accent1="accent1" '
    'accent2="accent2" accent3="accent3" accent4="accent4" accent5="accent5" accent6="accent6" '
    'hlink="hlink" folHlink="folHlink"/></p:notesMaster>' % (NS_A, NS_R, NS_P)
).encode("utf-8")


def build_deck(spec):
    """spec = {"layouts": [[layout_no 1..11, [items]], ...], "master": None | [items],
    "notes": None | [items], "idstep": int} -> bytes of a .pptx based on the default template."""
    pkg = base_pkg()
    step = int(spec.get("idstep", 1) or 1)
    for no, items in spec.get("layouts", []):
        name = "/ppt/slideLayouts/slideLayout%d.xml" % no
        if name not in pkg.members:
            raise HarnessError("default template has no %s" % name)
        pkg.set_member(name, replace_population(pkg.members[name], items, step))
    if spec.get("master") is not None:
        name = "/ppt/slideMasters/slideMaster1.xml"
        pkg.set_member(name, replace_population(pkg.members[name], spec["master"], step))
    if spec.get("notes") is not None:
        nm = "/ppt/notesMasters/notesMaster1.xml"
        pkg.set_member(nm, replace_population(_NOTES_MASTER_XML, spec["notes"], step))
        pkg.set_member("/ppt/theme/theme2.xml", pkg.members["/ppt/theme/theme1.xml"])
        pkg.set_member(
            "/ppt/notesMasters/_rels/notesMaster1.xml.rels",
            opcmodel.build_rels([("rId1", RT_THEME, "Internal", "../theme/theme2.xml")]))
        ct = parse(pkg.members["/[Content_Types].xml"])
        for pn, c in ((nm, CT_NOTES_MASTER), ("/ppt/theme/theme2.xml", CT_THEME)):
            o = etree.SubElement(ct, "{%s}Override" % NS_CT)
            o.set("PartName", pn)
            o.set("ContentType", c)
        pkg.set_member("/[Content_Types].xml", etree.tostring(
            ct, xml_declaration=True, encoding="UTF-8", standalone=True))
        rels = parse(pkg.members["/ppt/_rels/presentation.xml.rels"])
        r = etree.SubElement(rels, "{%s}Relationship" % NS_PR)
        r.set("Id", "rId77")
        r.set("Type", RT_NOTES_MASTER)
        r.set("Target", "notesMasters/notesMaster1.xml")
        pkg.set_member("/ppt/_rels/presentation.xml.rels", etree.tostring(
            rels, xml_declaration=True, encoding="UTF-8", standalone=True))
        prs = parse(pkg.members["/ppt/presentation.xml"])
        lst = etree.Element(_P + "notesMasterIdLst")
        e = etree.SubElement(lst, _P + "notesMasterId")
        e.set("{%s}id" % NS_R, "rId77")
        prs.find(_P + "sldMasterIdLst").addnext(lst)
        pkg.set_member("/ppt/presentation.xml", etree.tostring(
            prs, xml_declaration=True, encoding="UTF-8", standalone=True))
    return pkg.to_bytes()


def clone(x):
    return copy.deepcopy(x)
