import io, zipfile, datetime, collections
from lxml import etree
from pptx import Presentation
from pptx.chart.data import CategoryChartData, XyChartData, BubbleChartData
from pptx.enum.chart import XL_CHART_TYPE as X
from pptx.chart.xmlwriter import ChartXmlWriter
XD='/repo/spec/ISO-IEC-29500-4/xsd/'
wrapper = '''<xsd:schema xmlns:xsd="http://www.w3.org/2001/XMLSchema" targetNamespace="urn:verif:wrapper">
<xsd:import namespace="http://schemas.openxmlformats.org/presentationml/2006/main" schemaLocation="%spml.xsd"/>
<xsd:import namespace="http://schemas.openxmlformats.org/drawingml/2006/main" schemaLocation="%sdml-main.xsd"/>
<xsd:import namespace="http://schemas.openxmlformats.org/drawingml/2006/chart" schemaLocation="%sdml-chart.xsd"/>
</xsd:schema>''' % (XD,XD,XD)
schema = etree.XMLSchema(etree.fromstring(wrapper))
types=[t for t in X if True]
errs=collections.Counter(); ok=0; n=0
import re
for t in X:
    for kind in ('cat','date','num','multi','xy','bubble'):
        if kind in ('cat','date','num','multi'):
            cd=CategoryChartData()
            if kind=='cat': cd.categories=['a','b','c']
            elif kind=='date': cd.categories=[datetime.date(2020,1,1),datetime.date(2020,1,2),datetime.date(2020,1,3)]
            elif kind=='num': cd.categories=[1,2.5,3]
            else:
                c=cd.add_category('X'); c.add_sub_category('x1'); c.add_sub_category('x2'); c2=cd.add_category('Y'); c2.add_sub_category('y1')
            cd.add_series('s1',(1,None,3)); cd.add_series('s2',(4,5,6))
        elif kind=='xy':
            cd=XyChartData(); s=cd.add_series('s1'); s.add_data_point(1,2); s.add_data_point(3,4); s=cd.add_series('s2'); s.add_data_point(1,2)
        else:
            cd=BubbleChartData(); s=cd.add_series('s1'); s.add_data_point(1,2,3); s.add_data_point(3,4,5)
        try:
            xml=cd.xml_bytes(t)
        except NotImplementedError: continue
        except Exception as e:
            continue
        n+=1
        doc=etree.fromstring(xml)
        if schema.validate(doc): ok+=1
        else:
            for e in schema.error_log:
                m=re.sub(r"'-?\d+'","N",e.message)
                errs[(m[:160])]+=1
print(n,ok)
for k,v in errs.most_common(40): print(v,k)
