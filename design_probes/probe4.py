import io, re
from hypothesis import given, settings, strategies as st, HealthCheck
from pptx import Presentation
alpha = st.one_of(st.sampled_from(list('\n\v\t\r ab<&>"\'_x000D_]]>\x00\x07\x1f\x7f\x85 \U0001F600')), st.characters(blacklist_categories=('Cs',), blacklist_characters='￾￿'))
texts = st.text(alphabet=alpha, max_size=12)
def esc(s): return re.sub(r'[\x00-\x08\x0b-\x1f]', lambda m:'_x%04X_'%ord(m.group()), s)
def model_frame(s):
    return '\n'.join('\v'.join(esc(seg) for seg in re.split('\v', p)) for p in s.split('\n'))
def model_para(s):
    return '\v'.join(esc(seg) for seg in re.split('\n|\v', s))
def model_run(s):
    return esc(s)  # \n stays, \v -> _x000B_
fails=[]
@settings(max_examples=1500, deadline=None, database=None, suppress_health_check=list(HealthCheck))
@given(texts, st.sampled_from(['frame','para','run','cell']))
def t(s, level):
    prs=Presentation(); sl=prs.slides.add_slide(prs.slide_layouts[6])
    if level=='cell':
        tbl=sl.shapes.add_table(1,1,0,0,100,100).table; tbl.cell(0,0).text=s; got=tbl.cell(0,0).text; exp=model_frame(s)
        get=lambda p: p.slides[0].shapes[0].table.cell(0,0).text
    else:
        tb=sl.shapes.add_textbox(0,0,10,10); tf=tb.text_frame
        if level=='frame': tf.text=s; got=tf.text; exp=model_frame(s); get=lambda p: p.slides[0].shapes[0].text_frame.text
        elif level=='para': tf.paragraphs[0].text=s; got=tf.paragraphs[0].text; exp=model_para(s); get=lambda p: p.slides[0].shapes[0].text_frame.paragraphs[0].text
        else:
            r=tf.paragraphs[0].add_run(); r.text=s; got=r.text; exp=model_run(s); get=lambda p: p.slides[0].shapes[0].text_frame.paragraphs[0].runs[0].text
    assert got==exp, ('immediate',level,s,got,exp)
    b=io.BytesIO(); prs.save(b); p2=Presentation(io.BytesIO(b.getvalue()))
    g2=get(p2)
    assert g2==exp, ('reopen',level,s,g2,exp)
try:
    t()
    print('no failure')
except Exception as e:
    print(type(e).__name__, str(e)[:600])
