import io, zipfile, collections, posixpath, re
from lxml import etree
from pptx import Presentation
src=open('/repo/features/steps/test_files/prs-notes.pptx','rb').read()
z=zipfile.ZipFile(io.BytesIO(src)); members={n:z.read(n) for n in z.namelist()}
def build(m):
    b=io.BytesIO(); zz=zipfile.ZipFile(b,'w')
    for n,d in m.items(): zz.writestr(n,d)
    zz.close(); return b.getvalue()
res=collections.Counter()
R='{http://schemas.openxmlformats.org/package/2006/relationships}Relationship'
cases=0
for n in [x for x in members if x.endswith('.rels')]:
    root=etree.fromstring(members[n])
    for i,rel in enumerate(root):
        if rel.get('TargetMode')=='External': continue
        m=dict(members)
        r2=etree.fromstring(members[n]); r2[i].set('Target', posixpath.dirname(r2[i].get('Target'))+'/NULL')
        m[n]=etree.tostring(r2)
        cases+=1
        try:
            prs=Presentation(io.BytesIO(build(m)))
            out=io.BytesIO(); prs.save(out)
            Presentation(io.BytesIO(out.getvalue()))
            res['ok']+=1
        except Exception as e:
            res[(n,rel.get('Type').split('/')[-1],type(e).__name__,str(e)[:60])]+=1
# delete each .rels
for n in [x for x in members if x.endswith('.rels')]:
    m=dict(members); del m[n]; cases+=1
    try:
        prs=Presentation(io.BytesIO(build(m))); out=io.BytesIO(); prs.save(out); res['ok']+=1
    except Exception as e:
        res[('del',n,type(e).__name__,str(e)[:60])]+=1
print(cases); 
for k,v in res.items(): print(v,k)
