import io, zipfile, collections, hashlib
from PIL import Image as PI
from pptx import Presentation
from pptx.util import Emu
res=collections.Counter()
def mk(fmt,w,h,dpi,color):
    im=PI.new('RGB',(w,h),color); b=io.BytesIO()
    kw={}
    if dpi is not None: kw['dpi']=dpi
    if fmt=='GIF': im=im.convert('P')
    im.save(b,fmt,**kw); return b.getvalue()
def decode(blob):
    im=PI.open(io.BytesIO(blob)); return im.format, im.size, im.info.get('dpi')
def norm(d):
    try:
        v=int(round(float(d)))
        return v if 1<=v<=2048 else 72
    except Exception: return 72
prs=Presentation(); s=prs.slides.add_slide(prs.slide_layouts[6])
cases=0
blobs=[]
for fmt in ('PNG','JPEG','GIF','BMP','TIFF'):
    for dpi in (None,(0,0),(72,72),(300,150),(0.5,0.5),(2048,2049),(1e6,1e6),(96.4,96.6)):
        for (w,h) in ((1,1),(7,3),(64,33)):
            try: blob=mk(fmt,w,h,dpi,(len(blobs)%255,3,4))
            except Exception as e: res[('mkfail',fmt,str(dpi),type(e).__name__)]+=1; continue
            blobs.append(blob); cases+=1
            f,(pw,ph),d=decode(blob)
            hd,vd=(norm(d[0]),norm(d[1])) if isinstance(d,tuple) else (72,72)
            pic=s.shapes.add_picture(io.BytesIO(blob),0,0)
            ew,eh=int(914400*pw/hd),int(914400*ph/vd)
            if abs(pic.width-ew)>1 or abs(pic.height-eh)>1: res[('native',fmt,str(dpi),(w,h),(pic.width,pic.height),(ew,eh))]+=1
            if pic.image.blob!=blob: res['blob']+=1
            ext={'PNG':'png','JPEG':'jpg','GIF':'gif','BMP':'bmp','TIFF':'tiff'}[f]
            if pic.image.ext!=ext: res[('ext',fmt,pic.image.ext)]+=1
            pic2=s.shapes.add_picture(io.BytesIO(blob),0,0,width=Emu(1000000))
            exp=int(round(eh*1000000/ew)) if ew else None
            if ew and abs(pic2.height-exp)>1: res[('scale',fmt,str(dpi),(w,h),pic2.height,exp)]+=1
b=io.BytesIO(); prs.save(b)
z=zipfile.ZipFile(b); media=[n for n in z.namelist() if n.startswith('ppt/media/')]
print(cases,'images', len(media),'media', len(set(blobs)),'distinct blobs')
prs2=Presentation(io.BytesIO(b.getvalue())); s2=prs2.slides[0]
for blob in blobs[:10]: s2.shapes.add_picture(io.BytesIO(blob),0,0)
b2=io.BytesIO(); prs2.save(b2); media2=[n for n in zipfile.ZipFile(b2).namelist() if n.startswith('ppt/media/')]
print('after reopen+readd', len(media2))
for k,v in res.items(): print(v,k)
