import io, zipfile
from lxml import etree
from pptx import Presentation
from pptx.util import Emu
from pptx.enum.shapes import MSO_SHAPE
from pptx.enum.dml import MSO_THEME_COLOR
from pptx.dml.color import RGBColor
from pptx.enum.text import PP_ALIGN
def T(name, f):
    try:
        r=f(); print('OK  ',name, repr(r)[:400])
    except Exception as e:
        print('EXC ',name, type(e).__name__, str(e)[:300])
prs=Presentation(); s=prs.slides.add_slide(prs.slide_layouts[6]); sh=s.shapes
def c17():
    g=sh.add_group_shape()
    g.shapes.add_shape(MSO_SHAPE.OVAL, 100,100,50,50)
    before=(g.left,g.top,g.width,g.height)
    fb=g.shapes.build_freeform(1000,1000); fb.add_line_segments([(2000,1000),(2000,3000)]); f=fb.convert_to_shape()
    return before,(g.left,g.top,g.width,g.height),(f.left,f.top,f.width,f.height)
T('c17 freeform in group', c17)
def c03():
    tb=sh.add_textbox(0,0,100,100); p=tb.text_frame.paragraphs[0]
    p.text='\vabc'
    p.alignment=PP_ALIGN.CENTER
    return [c.tag.split('}')[1] for c in p._p]
T('c03 pPr after br', c03)
def c11():
    shp=sh.add_shape(MSO_SHAPE.OVAL,0,0,10,10); shp.fill.solid(); shp.fill.fore_color.rgb=RGBColor(1,2,3)
    try: shp.fill.fore_color.theme_color=MSO_THEME_COLOR.NOT_THEME_COLOR
    except Exception as e: print('  raised',type(e).__name__,e)
    return etree.tostring(shp._element.spPr.find('{http://schemas.openxmlformats.org/drawingml/2006/main}solidFill'))
T('c11 theme color invalid', c11)
def c11b():
    shp=sh.add_shape(MSO_SHAPE.OVAL,0,0,10,10); shp.fill.gradient(); shp.fill.gradient_angle=1e-9
    return shp._element.xpath('.//a:lin/@ang')
T('c11 grad angle', c11b)
def c10():
    from pptx.oxml.xmlchemy import OxmlElement
    s2=prs.slides.add_slide(prs.slide_layouts[6]); s2.shapes._spTree.append(OxmlElement('p:extLst'))
    from pptx.chart.data import CategoryChartData
    from pptx.enum.chart import XL_CHART_TYPE
    cd=CategoryChartData(); cd.categories=['a']; cd.add_series('s',(1,))
    s2.shapes.add_textbox(0,0,1,1)
    s2.shapes.add_chart(XL_CHART_TYPE.PIE,0,0,10,10,cd)
    return [c.tag.split('}')[1] for c in s2.shapes._spTree]
T('c10 spTree extLst', c10)
