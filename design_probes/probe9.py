from pptx import Presentation
from pptx.util import Emu, Pt
prs=Presentation(); s=prs.slides.add_slide(prs.slide_layouts[1])
ph=s.placeholders[1]
print('before', ph.left, ph.top, ph.width, ph.height)
ph.left=Emu(12345)
print('after left', ph.left, ph.top, ph.width, ph.height)
ph2=s.placeholders[0]
print('before', ph2.left, ph2.top, ph2.width, ph2.height)
ph2.width=Emu(777)
print('after width', ph2.left, ph2.top, ph2.width, ph2.height)
from lxml import etree
print(etree.tostring(ph2._element.spPr).decode()[:400])
# autoshape adjustments
from pptx.enum.shapes import MSO_SHAPE
sh=s.shapes.add_shape(MSO_SHAPE.ROUNDED_RECTANGLE,0,0,100,100)
sh.adjustments[0]=0.29; print(sh.adjustments[0])
sh.rotation=359.9999999; print(sh.rotation, sh._element.xpath('.//a:xfrm/@rot'))
sh.rotation=-0.000001; print(sh.rotation, sh._element.xpath('.//a:xfrm/@rot'))
tf=sh.text_frame
tf.paragraphs[0].line_spacing=1.5; print(tf.paragraphs[0].line_spacing)
tf.paragraphs[0].line_spacing=Pt(12.34); print(tf.paragraphs[0].line_spacing, Pt(12.34))
tf.paragraphs[0].space_before=Pt(0.004); print(tf.paragraphs[0].space_before)
r=tf.paragraphs[0].add_run(); r.font.size=Pt(10.555); print(r.font.size, Pt(10.555))
for bad in (50, 400001*127, 'x', None, 1.5):
    try: r.font.size=bad; print('acc',bad, r.font.size)
    except Exception as e: print('rej',bad,type(e).__name__)
sh.left=-5; print(sh.left)
try: sh.width=-5; print('acc', sh.width)
except Exception as e: print('rej', type(e).__name__)
try: sh.left=1.5; print('acc', sh.left)
except Exception as e: print('rej', type(e).__name__)
