import io, zipfile, glob, collections, re
from lxml import etree
XD='/repo/spec/ISO-IEC-29500-4/xsd/'
wrapper = '''<xsd:schema xmlns:xsd="http://www.w3.org/2001/XMLSchema" targetNamespace="urn:verif:wrapper">
<xsd:import namespace="http://schemas.openxmlformats.org/presentationml/2006/main" schemaLocation="%spml.xsd"/>
<xsd:import namespace="http://schemas.openxmlformats.org/drawingml/2006/main" schemaLocation="%sdml-main.xsd"/>
<xsd:import namespace="http://schemas.openxmlformats.org/drawingml/2006/chart" schemaLocation="%sdml-chart.xsd"/>
</xsd:schema>''' % (XD,XD,XD)
schema = etree.XMLSchema(etree.fromstring(wrapper))
MC='http://schemas.openxmlformats.org/markup-compatibility/2006'
KNOWN={'http://schemas.openxmlformats.org/presentationml/2006/main','http://schemas.openxmlformats.org/drawingml/2006/main','http://schemas.openxmlformats.org/drawingml/2006/chart','http://schemas.openxmlformats.org/officeDocument/2006/relationships'}
def mce(root):
    # process AlternateContent: choose Fallback content (we understand no extension namespaces)
    for ac in list(root.iter('{%s}AlternateContent'%MC)):
        parent=ac.getparent()
        if parent is None: continue
        fb=ac.find('{%s}Fallback'%MC)
        idx=parent.index(ac)
        kids=list(fb) if fb is not None else []
        for k in reversed(kids): parent.insert(idx+1,k)
        parent.remove(ac)
    ign=set()
    for el in root.iter():
        if not isinstance(el.tag,str): continue
        v=el.get('{%s}Ignorable'%MC)
        if v:
            for p in v.split():
                if p in el.nsmap: ign.add(el.nsmap[p])
    for el in list(root.iter()):
        if not isinstance(el.tag,str): continue
        for a in list(el.attrib):
            if a.startswith('{'+MC+'}') or (a.startswith('{') and a[1:a.index('}')] in ign): del el.attrib[a]
    for el in list(root.iter()):
        if not isinstance(el.tag,str): continue
        ns=etree.QName(el).namespace
        if ns in ign and el.getparent() is not None: el.getparent().remove(el)
    return root
tot=0; bad=0; errs=collections.Counter(); badfiles=collections.Counter()
for f in sorted(glob.glob('/repo/features/steps/test_files/*.pptx'))+sorted(glob.glob('/repo/tests/test_files/*.pptx'))+['/repo/src/pptx/templates/default.pptx']:
    z=zipfile.ZipFile(f)
    for n in z.namelist():
        if not n.endswith('.xml') or n.startswith('docProps') or n=='[Content_Types].xml' or 'customXml' in n: continue
        try: doc=etree.fromstring(z.read(n))
        except Exception as e: print('parse',f,n,e); continue
        ns=etree.QName(doc).namespace
        if ns not in KNOWN: continue
        if etree.QName(doc).localname in('theme','tblStyleLst','themeOverride'): 
            pass
        tot+=1
        doc=mce(doc)
        if not schema.validate(doc):
            bad+=1; badfiles[f.split('/')[-1]]+=1
            for e in schema.error_log:
                errs[re.sub(r"'[^']*'","'_'",e.message)[:170]]+=1
print(tot,bad)
for k,v in errs.most_common(40): print(v,k)
print(badfiles.most_common(50))
