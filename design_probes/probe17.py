import io, collections, datetime
from hypothesis import given, settings, strategies as st, HealthCheck, seed
from pptx import Presentation
from pptx.enum.shapes import MSO_SHAPE, MSO_CONNECTOR
from pptx.chart.data import CategoryChartData
from pptx.enum.chart import XL_CHART_TYPE
res=collections.Counter()
def bbox(g):
    ms=list(g.shapes)
    if not ms: return None
    xs=[m.left for m in ms]; ys=[m.top for m in ms]
    x2=[m.left+m.width for m in ms]; y2=[m.top+m.height for m in ms]
    return (min(xs),min(ys),max(x2)-min(xs),max(y2)-min(ys))
def all_nonempty(g):
    ms=list(g.shapes)
    if not ms: return False
    return all(all_nonempty(m) for m in ms if m.shape_type==6)
def check(g,path=''):
    if not all_nonempty(g): res['skipped-empty']+=1; return
    b=bbox(g)
    if (g.left,g.top,g.width,g.height)!=b: res[('bbox',path,(g.left,g.top,g.width,g.height),b)]+=1
    for i,m in enumerate(g.shapes):
        if m.shape_type==6: check(m,path+'/%d'%i)
coord=st.integers(-10**7,10**7); size=st.integers(0,10**7)
op=st.tuples(st.sampled_from(['shape','textbox','pic','cxn','group','chart']), st.integers(0,5), coord,coord,size,size)
@seed(1)
@settings(max_examples=150, deadline=None, database=None, suppress_health_check=list(HealthCheck))
@given(st.lists(op,min_size=1,max_size=12))
def t(ops):
    prs=Presentation(); sl=prs.slides.add_slide(prs.slide_layouts[6])
    top=sl.shapes.add_group_shape(); groups=[top]
    for kind,gi,x,y,w,h in ops:
        g=groups[gi%len(groups)]
        if kind=='shape': g.shapes.add_shape(MSO_SHAPE.OVAL,x,y,w,h)
        elif kind=='textbox': g.shapes.add_textbox(x,y,w,h)
        elif kind=='pic': g.shapes.add_picture('/repo/tests/test_files/python-icon.jpeg',x,y,w or None,h or None)
        elif kind=='cxn': g.shapes.add_connector(MSO_CONNECTOR.STRAIGHT,x,y,x+w,y-h)
        elif kind=='chart':
            cd=CategoryChartData(); cd.categories=['a']; cd.add_series('s',(1,)); g.shapes.add_chart(XL_CHART_TYPE.PIE,x,y,w,h,cd)
        else:
            if len(groups)<5: groups.append(g.shapes.add_group_shape())
        check(top)
t()
print(res.most_common(8))
