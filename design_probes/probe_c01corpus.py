import io, zipfile, glob, collections, posixpath
from lxml import etree
from pptx.package import Package
RNS='http://schemas.openxmlformats.org/officeDocument/2006/relationships'
def members(b):
    z=zipfile.ZipFile(io.BytesIO(b)); return {n:z.read(n) for n in z.namelist() if not n.endswith('/')}
def norm_xml(b):
    root=etree.fromstring(b)
    for el in root.iter():
        if not isinstance(el.tag,str): continue
        if len(el):
            if el.text is not None and not el.text.strip(): el.text=None
            for ch in el:
                if ch.tail is not None and not ch.tail.strip(): ch.tail=None
    return etree.tostring(root, method='c14n')
def rels_of(m, name):
    d,f=posixpath.split(name); rn=posixpath.join(d,'_rels',f+'.rels') if name else '_rels/.rels'
    if rn not in m: return {}
    out={}
    for r in etree.fromstring(m[rn]):
        ext=r.get('TargetMode')=='External'
        t=r.get('Target') if ext else posixpath.normpath(posixpath.join('/'+d, r.get('Target')))
        out[r.get('Id')]=(r.get('Type'),ext,t)
    return out
def reachable(m):
    seen=set(); stack=['']
    rel={}
    while stack:
        n=stack.pop(); rs=rels_of(m,n); rel[n]=rs
        for i,(t,ext,tg) in rs.items():
            if ext: continue
            mn=tg[1:]
            if mn in m and mn not in seen: seen.add(mn); stack.append(mn)
    return seen, rel
issues=collections.Counter(); nparts=0
dangling=collections.Counter()
for f in sorted(glob.glob('/repo/features/steps/test_files/*.ppt[xm]'))+sorted(glob.glob('/repo/tests/test_files/*.pptx')):
    src=open(f,'rb').read()
    try:
        pkg=Package.open(io.BytesIO(src)); o=io.BytesIO(); pkg.save(o)
        o2=io.BytesIO(); Package.open(io.BytesIO(o.getvalue())).save(o2)
    except Exception as e:
        issues[('openfail',f.split('/')[-1],type(e).__name__)]+=1; continue
    a,b,c=members(src),members(o.getvalue()),members(o2.getvalue())
    ra,rela=reachable(a); rb,relb=reachable(b)
    if ra!=rb: issues[('reach',f.split('/')[-1], tuple(sorted(ra^rb))[:3])]+=1
    extra=set(b)-rb-{'[Content_Types].xml'}-{n for n in b if n.endswith('.rels')}
    if extra: issues[('extra',f.split('/')[-1],tuple(extra)[:3])]+=1
    for n in ra&rb:
        nparts+=1
        if a[n]!=b[n]:
            try:
                if norm_xml(a[n])!=norm_xml(b[n]): issues[('xmldiff',f.split('/')[-1],n)]+=1
            except Exception as e: issues[('bindiff',f.split('/')[-1],n)]+=1
        if rela.get(n, rels_of(a,n))!=rels_of(b,n): issues[('reldiff',f.split('/')[-1],n)]+=1
        # xml refs
        if n.endswith('.xml'):
            try: root=etree.fromstring(b[n])
            except Exception: continue
            ids=set(rels_of(b,n))
            for el in root.iter():
                if not isinstance(el.tag,str): continue
                for k,v in el.attrib.items():
                    if k.startswith('{'+RNS+'}') and v and v not in ids:
                        dangling[(f.split('/')[-1],n,k.split('}')[1],v)]+=1
    if set(b)!=set(c) or any(b[k]!=c[k] for k in b): issues[('fixpoint',f.split('/')[-1])]+=1
print(nparts,'parts'); 
for k,v in issues.items(): print(v,k)
print('dangling refs', len(dangling)); 
for k,v in list(dangling.items())[:15]: print(v,k)
