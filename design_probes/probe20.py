from lxml import etree
import pptx
from pptx.enum import shapes, text, dml, chart, lang, action
from pptx.enum.base import BaseXmlEnum
from pptx.spec import autoshape_types
from pptx.enum.shapes import MSO_SHAPE
XS='{http://www.w3.org/2001/XMLSchema}'
def st_enum(xsd, name):
    t=etree.parse('/repo/spec/ISO-IEC-29500-4/xsd/'+xsd)
    st=t.xpath('//xs:simpleType[@name="%s"]'%name, namespaces={'xs':XS[1:-1]})
    if not st: return None
    return [e.get('value') for e in st[0].iter(XS+'enumeration')]
A=etree.parse('/repo/spec/ISO-IEC-29500-1/schemas/dml-geometries/OfficeOpenXML-DrawingMLGeometries/presetShapeDefinitions.xml').getroot()
defs={c.tag: c for c in A}
print(len(defs),'preset defs')
ns={'a':'http://schemas.openxmlformats.org/drawingml/2006/main'}
# enums
import inspect
for mod in (shapes,text,dml,chart,lang,action):
    for n,c in inspect.getmembers(mod, inspect.isclass):
        if issubclass(c, BaseXmlEnum) and c is not BaseXmlEnum and c.__module__==mod.__name__:
            toks=[m.xml_value for m in c if m.xml_value]
            dup=len(toks)-len(set(toks))
            print(mod.__name__, n, len(list(c)), 'members', len(c.__members__),'names', 'xmltokens',len(toks),'dups',dup)
prst=st_enum('dml-main.xsd','ST_ShapeType')
print('ST_ShapeType', len(prst))
bad=[]
for m in MSO_SHAPE:
    if m.xml_value not in prst: bad.append(('notinschema',m.name,m.xml_value))
    d=defs.get(m.xml_value)
    if d is None: bad.append(('nodef',m.name,m.xml_value)); continue
    av=[(g.get('name'), g.get('fmla')) for g in d.xpath('./a:avLst/a:gd',namespaces=ns)]
    spec=autoshape_types.get(m)
    if spec is None: bad.append(('nospec',m.name)); continue
    mine=[(n,'val %d'%v) for n,v in spec['avLst']]
    if av!=mine: bad.append(('avdiff',m.name,m.xml_value,av,mine))
for b in bad: print(b)
print(len(bad))
