from lxml import etree
XD='/repo/spec/ISO-IEC-29500-4/xsd/'
A='http://schemas.openxmlformats.org/drawingml/2006/main'; P='http://schemas.openxmlformats.org/presentationml/2006/main'; C='http://schemas.openxmlformats.org/drawingml/2006/chart'; S='http://schemas.openxmlformats.org/officeDocument/2006/sharedTypes'
XS='{http://www.w3.org/2001/XMLSchema}'
types=[]
for fn,pfx,ns in (('dml-main.xsd','a',A),('pml.xsd','p',P),('dml-chart.xsd','c',C),('shared-commonSimpleTypes.xsd','s',S)):
    for st in etree.parse(XD+fn).getroot().findall(XS+'simpleType'):
        types.append((pfx,st.get('name')))
attrs=''.join('<xsd:attribute name="%s_%s" type="%s:%s"/>'%(p,n,p,n) for p,n in types)
w='''<xsd:schema xmlns:xsd="http://www.w3.org/2001/XMLSchema" xmlns:a="%s" xmlns:p="%s" xmlns:c="%s" xmlns:s="%s" targetNamespace="urn:probe" elementFormDefault="qualified">
<xsd:import namespace="%s" schemaLocation="%sdml-main.xsd"/><xsd:import namespace="%s" schemaLocation="%spml.xsd"/><xsd:import namespace="%s" schemaLocation="%sdml-chart.xsd"/><xsd:import namespace="%s" schemaLocation="%sshared-commonSimpleTypes.xsd"/>
<xsd:element name="probe"><xsd:complexType>%s</xsd:complexType></xsd:element></xsd:schema>'''%(A,P,C,S,A,XD,P,XD,C,XD,S,XD,attrs)
schema=etree.XMLSchema(etree.fromstring(w))
print(len(types),'simple types')
def valid(t,v):
    e=etree.Element('{urn:probe}probe'); e.set(t,v); return schema.validate(e)
for t,v in [('a_ST_TextFontSize','99'),('a_ST_TextFontSize','100'),('a_ST_PositiveFixedAngle','21600000'),('a_ST_PositiveFixedAngle','21599999'),('a_ST_Percentage','50%'),('a_ST_Percentage','50000'),('a_ST_Coordinate','1.5pt'),('a_ST_Coordinate','27273042316901'),('a_ST_TextSpacingPoint','158400'),('a_ST_TextSpacingPoint','158401'),('c_ST_GapAmount','500%'),('c_ST_GapAmount','501'),('a_ST_ShapeType','upArrow'),('a_ST_TextFontScalePercentOrPercentString','1000'),('a_ST_TextFontScalePercentOrPercentString','999'),('p_ST_SlideId','255'),('a_ST_LineWidth','20116801'),('a_ST_Angle','-5')]:
    print(t,v,valid(t,v))
