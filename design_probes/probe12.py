import io, zipfile, glob, collections, re, sys, traceback
from lxml import etree
from pptx import Presentation
def c14n(b):
    try:
        p=etree.XMLParser(remove_blank_text=False)
        return etree.tostring(etree.fromstring(b,p), method='c14n')
    except Exception: return b
def parts(blob):
    z=zipfile.ZipFile(io.BytesIO(blob)); return {n:z.read(n) for n in z.namelist()}
visited=collections.Counter()
def touch(obj, depth=0, seen=None):
    """call every public property/zero-arg... just properties"""
    pass
def read_all(prs):
    errs=collections.Counter()
    def props(o, skip=()):
        for name in dir(type(o)):
            if name.startswith('_') or name in skip: continue
            attr=getattr(type(o),name,None)
            if isinstance(attr,property) or type(attr).__name__=='lazyproperty':
                try:
                    v=getattr(o,name); visited[type(o).__name__+'.'+name]+=1
                    yield name,v
                except Exception as e:
                    errs[(type(o).__name__,name,type(e).__name__)]+=1
    CREATING={'notes_slide','notes_master','core_properties','chart_title','text_frame_DISABLED'}
    def walk_tf(tf):
        for n,v in props(tf): pass
        for p in tf.paragraphs:
            for n,v in props(p, skip=('font',)): pass
            for r in p.runs:
                for n,v in props(r, skip=()): pass
    def walk_shape(sh):
        for n,v in props(sh, skip=('chart_title',)):
            pass
        if getattr(sh,'has_text_frame',False): walk_tf(sh.text_frame)
        if sh.shape_type is not None and hasattr(sh,'shapes'):
            for s in sh.shapes: walk_shape(s)
        if getattr(sh,'has_table',False):
            t=sh.table
            for n,v in props(t): pass
            for c in t.iter_cells():
                for n,v in props(c): pass
                walk_tf(c.text_frame)
            for r in t.rows: r.height
            for c in t.columns: c.width
        if getattr(sh,'has_chart',False):
            ch=sh.chart
            for n,v in props(ch, skip=('chart_title','font')): pass
            for pl in ch.plots:
                for n,v in props(pl, skip=('data_labels',)): pass
                list(pl.categories); 
                for s in pl.series:
                    for n,v in props(s, skip=('data_labels','format','marker','points')): pass
                    list(s.values)
    for n,v in props(prs, skip=('notes_master','core_properties')): pass
    for m in prs.slide_masters:
        for n,v in props(m, skip=('background',)): pass
        for sh in m.shapes: walk_shape(sh)
        for l in m.slide_layouts:
            for n,v in props(l, skip=('background',)): pass
            for sh in l.shapes: walk_shape(sh)
            for ph in l.placeholders: walk_shape(ph)
    for s in prs.slides:
        for n,v in props(s, skip=('notes_slide','background')): pass
        for sh in s.shapes: walk_shape(sh)
        for ph in s.placeholders: walk_shape(ph)
        if s.has_notes_slide:
            ns=s.notes_slide
            for sh in ns.shapes: walk_shape(sh)
    return errs
difftags=collections.Counter(); allerrs=collections.Counter()
for f in sorted(glob.glob('/repo/features/steps/test_files/*.pptx')):
    try:
        a=Presentation(f); ba=io.BytesIO(); a.save(ba)
        b=Presentation(f); errs=read_all(b); allerrs.update(errs); bb=io.BytesIO(); b.save(bb); bb2=io.BytesIO(); b.save(bb2)
    except Exception as e:
        print('FAIL',f,type(e).__name__,e); traceback.print_exc(limit=3); continue
    pa,pb=parts(ba.getvalue()),parts(bb.getvalue())
    if set(pa)!=set(pb): print(f.split('/')[-1],'member diff', set(pa)^set(pb))
    for n in pa:
        if n in pb and pa[n]!=pb[n]:
            ca,cb=c14n(pa[n]),c14n(pb[n])
            if ca!=cb:
                # find added elements
                ea=etree.fromstring(pa[n]); eb=etree.fromstring(pb[n])
                ta=collections.Counter(etree.QName(e).localname for e in ea.iter() if isinstance(e.tag,str))
                tb=collections.Counter(etree.QName(e).localname for e in eb.iter() if isinstance(e.tag,str))
                d={k:tb[k]-ta[k] for k in set(ta)|set(tb) if tb[k]!=ta[k]}
                difftags.update({k:1 for k in d}); 
                print(f.split('/')[-1],n,d)
print(difftags)
print(allerrs.most_common(60))
