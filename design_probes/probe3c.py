import io, zipfile, collections, re, random, datetime, traceback
from lxml import etree
from hypothesis import given, settings, strategies as st, HealthCheck, seed
from pptx import Presentation
from pptx.util import Emu, Pt
from pptx.enum.shapes import MSO_SHAPE, MSO_CONNECTOR, PP_PLACEHOLDER
from pptx.enum.text import PP_ALIGN, MSO_ANCHOR, MSO_AUTO_SIZE, MSO_UNDERLINE
from pptx.enum.dml import MSO_THEME_COLOR, MSO_LINE, MSO_PATTERN
from pptx.dml.color import RGBColor
from pptx.chart.data import CategoryChartData, XyChartData
from pptx.enum.chart import XL_CHART_TYPE, XL_LEGEND_POSITION, XL_TICK_MARK, XL_LABEL_POSITION, XL_MARKER_STYLE, XL_TICK_LABEL_POSITION
from probe_corpus import mce
XD='/repo/spec/ISO-IEC-29500-4/xsd/'
wrapper = '''<xsd:schema xmlns:xsd="http://www.w3.org/2001/XMLSchema" targetNamespace="urn:verif:wrapper">
<xsd:import namespace="http://schemas.openxmlformats.org/presentationml/2006/main" schemaLocation="%spml.xsd"/>
<xsd:import namespace="http://schemas.openxmlformats.org/drawingml/2006/main" schemaLocation="%sdml-main.xsd"/>
<xsd:import namespace="http://schemas.openxmlformats.org/drawingml/2006/chart" schemaLocation="%sdml-chart.xsd"/>
</xsd:schema>''' % (XD,XD,XD)
schema = etree.XMLSchema(etree.fromstring(wrapper))
def errs(part):
    doc=mce(etree.fromstring(part.blob))
    if schema.validate(doc): return set()
    return {re.sub(r"'-?\d{6,}'","N",e.message)[:200] for e in schema.error_log}
found=collections.Counter()
def validate(prs, tag):
    for part in prs.part.package.iter_parts():
        if hasattr(part,'_element') and etree.QName(part._element).namespace in ('http://schemas.openxmlformats.org/presentationml/2006/main','http://schemas.openxmlformats.org/drawingml/2006/chart','http://schemas.openxmlformats.org/drawingml/2006/main'):
            for e in errs(part):
                if 'axId' in e or 'crossAx' in e: continue
                found[(tag,e)]+=1
R=random.Random(5)
texts=['','a','\vabc','a\nb','x\v','\n\n',' lead','tab\tx']
def rnd_text(): return R.choice(texts)
def op_shape(sl):
    kind=R.randrange(10); sh=sl.shapes
    x,y,w,h=[R.choice([0,1,914400,-5000,12345678]) for _ in range(2)]+[R.choice([0,1,914400,5000000]) for _ in range(2)]
    if kind==0: return sh.add_shape(R.choice(list(MSO_SHAPE)),x,y,w,h)
    if kind==1: return sh.add_textbox(x,y,w,h)
    if kind==2: return sh.add_connector(R.choice([m for m in MSO_CONNECTOR if m.xml_value]),x,y,w,h)
    if kind==3: return sh.add_picture('/repo/tests/test_files/python-icon.jpeg',x,y)
    if kind==4: return sh.add_table(R.randint(1,3),R.randint(1,3),x,y,w or 1000,h or 1000)
    if kind==5:
        cd=CategoryChartData(); cd.categories=['a','b']; cd.add_series('s',(1,2)); return sh.add_chart(R.choice([XL_CHART_TYPE.PIE,XL_CHART_TYPE.BAR_CLUSTERED,XL_CHART_TYPE.LINE_MARKERS,XL_CHART_TYPE.AREA,XL_CHART_TYPE.RADAR,XL_CHART_TYPE.DOUGHNUT]),x,y,w,h,cd)
    if kind==6:
        g=sh.add_group_shape(); g.shapes.add_shape(MSO_SHAPE.OVAL,x,y,w,h); return g
    if kind==7:
        fb=sh.build_freeform(1,1); fb.add_line_segments([(5,5),(9,1)]); return fb.convert_to_shape()
    if kind==8: return sh.add_movie('/repo/tests/test_files/dummy.mp4',x,y,w,h)
    from pptx.enum.shapes import PROG_ID
    return sh.add_ole_object('/repo/features/steps/test_files/shp-embedded-xlsx.xlsx',PROG_ID.XLSX,x,y)
def fmt_text(tf):
    k=R.randrange(14)
    p=R.choice(tf.paragraphs)
    if k==0: tf.text=rnd_text()
    elif k==1: p.text=rnd_text()
    elif k==2: p.alignment=R.choice([None]+[m for m in PP_ALIGN if m.xml_value])
    elif k==3: p.level=R.randint(0,8)
    elif k==4: p.line_spacing=R.choice([None,1.5,Pt(12),0.0,132.0])
    elif k==5: p.space_before=R.choice([None,Pt(3),0]); p.space_after=R.choice([None,Pt(3)])
    elif k==6: p.font.size=R.choice([None,Pt(10),Pt(1),Pt(4000)]); p.font.bold=R.choice([None,True,False])
    elif k==7:
        r=p.add_run(); r.text=rnd_text(); r.font.name=R.choice([None,'Arial']); r.font.underline=R.choice([None,True,False,MSO_UNDERLINE.DOUBLE_LINE]); r.font.color.rgb=RGBColor(1,2,3)
    elif k==8: p.add_line_break()
    elif k==9: tf.add_paragraph()
    elif k==10: tf.word_wrap=R.choice([None,True,False]); tf.auto_size=R.choice([None]+list(MSO_AUTO_SIZE)[:3])
    elif k==11: tf.vertical_anchor=R.choice([None]+[m for m in MSO_ANCHOR if m.xml_value]); tf.margin_left=R.choice([0,914400])
    elif k==12:
        r=p.add_run(); r.text='link'; r.hyperlink.address=R.choice(['http://a.b/c?d=1&e=2',None])
    elif k==13:
        if p.runs: r=R.choice(p.runs); r.font.fill.solid(); r.font.fill.fore_color.theme_color=MSO_THEME_COLOR.ACCENT_1; r.font.fill.fore_color.brightness=R.choice([-0.5,0,0.4]); r.font.language_id=R.choice(list(__import__('pptx.enum.lang',fromlist=['x']).MSO_LANGUAGE_ID)[:5])
def fmt_shape(sh):
    k=R.randrange(10)
    if k==0 and hasattr(sh,'fill'):
        f=sh.fill; c=R.randrange(5)
        if c==0: f.solid(); f.fore_color.rgb=RGBColor(9,9,9)
        elif c==1: f.background()
        elif c==2: f.gradient(); f.gradient_angle=R.choice([0,45,90.5,359]); f.gradient_stops[0].position=0.3; f.gradient_stops[1].color.theme_color=MSO_THEME_COLOR.ACCENT_2
        elif c==3: f.patterned(); f.pattern=R.choice([m for m in MSO_PATTERN if m.xml_value]); f.fore_color.rgb=RGBColor(1,1,1); f.back_color.theme_color=MSO_THEME_COLOR.ACCENT_3
        else: f.solid(); f.fore_color.theme_color=MSO_THEME_COLOR.ACCENT_5; f.fore_color.brightness=0.25
    elif k==1 and hasattr(sh,'line'):
        l=sh.line; l.width=R.choice([0,12700,None]); l.dash_style=R.choice([None]+[m for m in MSO_LINE if m.xml_value]); 
        if R.random()<0.5: l.color.rgb=RGBColor(3,4,5)
        if R.random()<0.3: l.fill.background()
    elif k==2: sh.rotation=R.choice([0,45.5,-30,720]) if sh.shape_type!=6 or True else None
    elif k==3: sh.left=R.choice([0,-100,999999]); sh.width=R.choice([0,100,999999])
    elif k==4: sh.name=R.choice(['x','a&b','"q"'])
    elif k==5 and hasattr(sh,'shadow'):
        try: sh.shadow.inherit=R.choice([True,False])
        except NotImplementedError: pass
    elif k==6 and getattr(sh,'has_text_frame',False): fmt_text(sh.text_frame)
    elif k==7:
        try: sh.click_action.hyperlink.address=R.choice(['http://x.y',None])
        except TypeError: pass
    elif k==8 and hasattr(sh,'adjustments') and len(sh.adjustments): sh.adjustments[0]=R.choice([0,0.5,1.5,-0.2])
    elif k==9 and hasattr(sh,'crop_left'): sh.crop_left=R.choice([0,0.1,-0.1]); sh.crop_bottom=0.2
def fmt_table(t):
    k=R.randrange(7); r=len(t.rows); c=len(t.columns)
    cell=t.cell(R.randrange(r),R.randrange(c))
    if k==0: cell.text=rnd_text()
    elif k==1:
        o=t.cell(R.randrange(r),R.randrange(c))
        try: cell.merge(o)
        except ValueError: pass
    elif k==2:
        try: cell.split()
        except ValueError: pass
    elif k==3: cell.fill.solid(); cell.fill.fore_color.rgb=RGBColor(1,2,3)
    elif k==4: cell.margin_left=R.choice([None,0,1000]); cell.vertical_anchor=R.choice([None]+[m for m in MSO_ANCHOR if m.xml_value])
    elif k==5: t.first_row=R.choice([True,False]); t.horz_banding=R.choice([True,False]); t.last_col=True
    elif k==6: t.rows[0].height=R.choice([0,5000]); t.columns[0].width=R.choice([0,5000])
def fmt_chart(ch):
    k=R.randrange(14)
    try:
        if k==0: ch.has_legend=R.choice([True,False]); 
        elif k==1 and ch.has_legend: ch.legend.position=R.choice(list(XL_LEGEND_POSITION)[:5]); ch.legend.include_in_layout=R.choice([None,True,False]); ch.legend.horz_offset=R.choice([0,0.3,-0.5]); ch.legend.font.size=Pt(9)
        elif k==2: ch.has_title=R.choice([True,False])
        elif k==3: ch.chart_title.text_frame.text=rnd_text()
        elif k==4: ch.chart_style=R.choice([None,1,48])
        elif k==5: ch.font.size=Pt(11); ch.font.bold=True
        elif k==6:
            ax=R.choice([ch.category_axis,ch.value_axis]); ax.has_major_gridlines=R.choice([True,False]); ax.has_minor_gridlines=R.choice([True,False]); ax.major_tick_mark=R.choice(list(XL_TICK_MARK)); ax.minor_tick_mark=R.choice(list(XL_TICK_MARK)); ax.tick_label_position=R.choice(list(XL_TICK_LABEL_POSITION)); ax.visible=R.choice([True,False]); ax.reverse_order=R.choice([True,False])
        elif k==7:
            ax=ch.value_axis; ax.maximum_scale=R.choice([None,10.5]); ax.minimum_scale=R.choice([None,-3]); ax.major_unit=R.choice([None,2.5]); ax.minor_unit=R.choice([None,0.5]); ax.crosses_at=R.choice([None,1.0])
        elif k==8:
            ax=R.choice([ch.category_axis,ch.value_axis]); ax.has_title=R.choice([True,False]); ax.axis_title.text_frame.text='T'; ax.tick_labels.number_format='0.0'; ax.tick_labels.font.italic=True; ax.format.line.width=Pt(1); ax.major_gridlines.format.line.color.rgb=RGBColor(1,1,1)
        elif k==9:
            pl=ch.plots[0]; pl.has_data_labels=R.choice([True,False]); 
            if pl.has_data_labels:
                dl=pl.data_labels; dl.number_format='0%'; dl.position=R.choice([None]+list(XL_LABEL_POSITION)[:4]); dl.show_value=True; dl.show_percentage=R.choice([True,False]); dl.font.size=Pt(8); dl.show_category_name=True
        elif k==10:
            pl=ch.plots[0]; pl.vary_by_categories=R.choice([True,False])
            if hasattr(pl,'gap_width'): pl.gap_width=R.choice([0,150,500]); pl.overlap=R.choice([-100,0,100])
        elif k==11:
            s=ch.plots[0].series[0]; s.format.fill.solid(); s.format.fill.fore_color.rgb=RGBColor(5,5,5); s.format.line.width=Pt(2)
            if hasattr(s,'smooth'): s.smooth=R.choice([True,False])
            if hasattr(s,'invert_if_negative'): s.invert_if_negative=R.choice([True,False])
            if hasattr(s,'marker'): s.marker.size=R.choice([None,2,72]); s.marker.style=R.choice([None]+list(XL_MARKER_STYLE)[:4]); s.marker.format.fill.solid()
        elif k==12:
            s=ch.plots[0].series[0]; pt=s.points[R.randrange(2)]; pt.format.fill.solid(); pt.format.fill.fore_color.rgb=RGBColor(7,7,7); pt.data_label.position=R.choice([None]+list(XL_LABEL_POSITION)[:3]); pt.data_label.text_frame.text='L'; pt.data_label.font.bold=True
            if hasattr(pt,'marker'): pt.marker.size=5
        elif k==13:
            cd=CategoryChartData(); cd.categories=['p','q','r']; cd.add_series('n1',(3,None,1)); cd.add_series('n2',(1,1,1)); ch.replace_data(cd)
    except (ValueError,) as e:
        if 'no category axis' in str(e) or 'no value axis' in str(e) or 'has no' in str(e): return
        raise

import glob
crashes=collections.Counter(); newerrs=collections.Counter()
def errmap(prs):
    out={}
    for part in prs.part.package.iter_parts():
        if hasattr(part,'_element') and etree.QName(part._element).namespace in ('http://schemas.openxmlformats.org/presentationml/2006/main','http://schemas.openxmlformats.org/drawingml/2006/chart','http://schemas.openxmlformats.org/drawingml/2006/main'):
            out[id(part)]=(part, errs(part))
    return out
for f in sorted(glob.glob('/repo/features/steps/test_files/*.pptx')):
    for rep in range(2):
        try: prs=Presentation(f)
        except Exception as e: crashes[('open',f.split('/')[-1],type(e).__name__)]+=1; continue
        if len(prs.slides)==0: continue
        base=errmap(prs)
        for step in range(30):
            sl=R.choice(list(prs.slides))
            try:
                shapes=list(sl.shapes); c=R.random(); desc='?'
                if c<0.2 or not shapes: sh=op_shape(sl); desc='add:'+type(sh).__name__
                else:
                    sh=R.choice(shapes)
                    if getattr(sh,'has_table',False) and R.random()<0.7: fmt_table(sh.table); desc='table'
                    elif getattr(sh,'has_chart',False) and R.random()<0.8: fmt_chart(sh.chart); desc='chart'
                    elif sh.shape_type==6 and R.random()<0.5: op_shape(sh); desc='addingroup'
                    else: fmt_shape(sh); desc='fmt:'+type(sh).__name__
                if R.random()<0.05: sl.notes_slide.notes_text_frame.text='n'; desc='notes'
            except Exception as e:
                tb=traceback.extract_tb(e.__traceback__)[-1]
                crashes[(type(e).__name__, str(e)[:70], tb.filename.split('/')[-1], tb.lineno, desc)]+=1
                continue
            now=errmap(prs)
            for k,(part,es) in now.items():
                old=base.get(k,(None,set()))[1]
                for e in es-old:
                    if 'axId' in e or 'crossAx' in e: continue
                    newerrs[(f.split('/')[-1],desc,e[:170])]+=1
            base=now
agg=collections.Counter()
for (f,d,e),v in newerrs.items(): agg[(d,e)]+=v
print('NEW ERRORS')
for k,v in agg.most_common(40): print(v,k)
print('files', collections.Counter(f for (f,d,e) in newerrs).most_common(10))
print('CRASHES')
for k,v in crashes.most_common(40): print(v,k)
