import io, zipfile, re, datetime, collections
from lxml import etree
from pptx import Presentation
from pptx.chart.data import CategoryChartData, XyChartData, BubbleChartData
from pptx.enum.chart import XL_CHART_TYPE as X
S='http://schemas.openxmlformats.org/spreadsheetml/2006/main'
def col2n(c):
    n=0
    for ch in c: n=n*26+ord(ch)-64
    return n
def readxlsx(blob):
    z=zipfile.ZipFile(io.BytesIO(blob))
    ss=[]
    if 'xl/sharedStrings.xml' in z.namelist():
        for si in etree.fromstring(z.read('xl/sharedStrings.xml')):
            ss.append(''.join(si.itertext()))
    sh=etree.fromstring(z.read('xl/worksheets/sheet1.xml'))
    cells={}
    for c in sh.iter('{%s}c'%S):
        m=re.match(r'([A-Z]+)(\d+)',c.get('r')); col,row=col2n(m.group(1)),int(m.group(2))
        v=c.find('{%s}v'%S); f=c.find('{%s}f'%S); t=c.get('t')
        if f is not None: cells[(row,col)]=('f',f.text)
        elif v is None: cells[(row,col)]=None
        elif t=='s': cells[(row,col)]=('s',ss[int(v.text)])
        elif t=='str': cells[(row,col)]=('s',v.text)
        else: cells[(row,col)]=('n',float(v.text))
    wb=etree.fromstring(z.read('xl/workbook.xml'))
    pr=wb.find('{%s}workbookPr'%S)
    return cells, (pr is not None and pr.get('date1904') in ('1','true'))
def parse_ref(f):
    m=re.fullmatch(r"Sheet1!\$([A-Z]+)\$(\d+)(?::\$([A-Z]+)\$(\d+))?",f)
    c1,r1=col2n(m.group(1)),int(m.group(2)); c2,r2=(col2n(m.group(3)),int(m.group(4))) if m.group(3) else (c1,r1)
    return c1,r1,c2,r2
res=collections.Counter()
def check(chart_part):
    cs=etree.fromstring(chart_part.blob)
    xl=chart_part.chart_workbook.xlsx_part.blob
    cells,d1904=readxlsx(xl)
    ns={'c':'http://schemas.openxmlformats.org/drawingml/2006/chart'}
    for ref in cs.xpath('.//c:strRef | .//c:numRef | .//c:multiLvlStrRef',namespaces=ns):
        f=ref.xpath('./c:f/text()',namespaces=ns)[0]; c1,r1,c2,r2=parse_ref(f)
        cache=ref.xpath('./c:strCache | ./c:numCache | ./c:multiLvlStrCache',namespaces=ns)[0]
        cnt=int(cache.xpath('./c:ptCount/@val',namespaces=ns)[0])
        nrows=max(0,r2-r1+1)
        if nrows!=cnt: res[('count',f,cnt)]+=1
        lvls=cache.xpath('./c:lvl',namespaces=ns) or [cache]
        if len(lvls)!=c2-c1+1: res[('lvlcount',f,len(lvls))]+=1
        for li,lvl in enumerate(lvls):
            col=c2-li
            pts={int(p.get('idx')):(p.xpath('./c:v',namespaces=ns)[0].text or '') for p in lvl.xpath('./c:pt',namespaces=ns)}
            for i in range(cnt):
                cell=cells.get((r1+i,col))
                if i in pts:
                    v=pts[i]
                    if cell is None: res[('pt without cell',f,i,v)]+=1
                    elif cell[0]=='s':
                        if cell[1]!=v: res[('str mismatch',f,i,v,cell)]+=1
                    elif cell[0]=='n':
                        try:
                            if float(v)!=cell[1]: res[('num mismatch',f,i,v,cell)]+=1
                        except ValueError: res[('num vs str',f,i,v,cell)]+=1
                    else: res[('formula cell',f,i,v,cell)]+=1
                else:
                    if cell is not None and len(lvls)==1: res[('cell without pt',f,i,cell)]+=1
prs=Presentation(); sl=prs.slides.add_slide(prs.slide_layouts[6])
def cat(nser,npts,kind):
    cd=CategoryChartData()
    if kind=='str': cd.categories=['c%d'%i for i in range(npts)]
    elif kind=='date': cd.categories=[datetime.date(1900,2,27)+datetime.timedelta(days=i) for i in range(npts)]
    elif kind=='num': cd.categories=[i*1.5 for i in range(npts)]
    elif kind=='ml':
        for a in range(2):
            A=cd.add_category('A%d'%a)
            for b in range(2):
                B=A.add_sub_category('B%d%d'%(a,b))
                for c in range(1+b): B.add_sub_category('C%d%d%d'%(a,b,c))
        npts=6
    elif kind=='eq': cd.categories=['=SUM(1,2)','http://x.y/z','mailto:a@b.c'][:npts]+['z']*(max(0,npts-3))
    for s in range(nser): cd.add_series('=S%d'%s if kind=='eq' else 'S%d'%s, [None if (i+s)%4==3 else i+s*0.5 for i in range(npts)])
    return cd
n=0
for kind in ('str','date','num','ml','eq'):
    for nser in (1,2,25,26,27,52,53):
        for npts in (1,3):
            cd=cat(nser,npts,kind); gf=sl.shapes.add_chart(X.COLUMN_CLUSTERED,0,0,10,10,cd); n+=1
            check(gf.chart.part)
for nser in (1,3):
    cd=XyChartData()
    for s in range(nser):
        ser=cd.add_series('X%d'%s)
        for i in range(s*2): ser.add_data_point(i, None if i==1 else i*2)
    gf=sl.shapes.add_chart(X.XY_SCATTER,0,0,10,10,cd); check(gf.chart.part); n+=1
    cd=BubbleChartData()
    for s in range(nser):
        ser=cd.add_series('B%d'%s)
        for i in range(3-s): ser.add_data_point(i, i*2, i+1)
    gf=sl.shapes.add_chart(X.BUBBLE,0,0,10,10,cd); check(gf.chart.part); n+=1
print(n,'charts')
seen=collections.Counter()
for k,v in res.items(): seen[k[0]]+=v
print(seen)
for k,v in list(res.items())[:12]: print(v,k)
