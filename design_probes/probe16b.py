import io, zipfile, collections, os, tempfile
from pptx import Presentation
from pptx.exc import PackageNotFoundError
src=open('/repo/tests/test_files/minimal.pptx','rb').read()
res=collections.Counter()
d=tempfile.mkdtemp()
for cut in list(range(0,len(src),max(1,len(src)//64)))+list(range(len(src)-64,len(src))):
    data=src[:cut]
    p=os.path.join(d,'t.pptx'); open(p,'wb').write(data)
    for kind,arg in (('path',p),('stream',io.BytesIO(data))):
        try:
            Presentation(arg); res[(kind,'OK')]+=1
        except Exception as e:
            res[(kind,type(e).__name__)]+=1
print(res)
for f in ['/repo/features/steps/test_files/shp-embedded-docx.docx','/repo/features/steps/test_files/shp-embedded-xlsx.xlsx']:
    for arg in (f, io.BytesIO(open(f,'rb').read())):
        try: Presentation(arg); print('OK?',f)
        except Exception as e: print(type(e).__name__, str(e)[:80])
for data in (b'', b'hello world', os.urandom(1000)):
    p=os.path.join(d,'u.pptx'); open(p,'wb').write(data)
    for arg in (p, io.BytesIO(data)):
        try: Presentation(arg)
        except Exception as e: print(type(e).__name__, str(e)[:60])
try: Presentation(os.path.join(d,'nonexistent.pptx'))
except Exception as e: print('nonexistent', type(e).__name__)
# zip without content types
b=io.BytesIO(); z=zipfile.ZipFile(b,'w'); z.writestr('a.txt','x'); z.close()
try: Presentation(io.BytesIO(b.getvalue()))
except Exception as e: print('plainzip', type(e).__name__, str(e)[:60])
import shutil; shutil.rmtree(d)
