import io, zipfile, traceback, shutil, os, re
from lxml import etree
from pptx import Presentation
from pptx.util import Emu
def T(name, f):
    try:
        r=f(); print('OK  ',name, repr(r)[:300])
    except Exception as e:
        print('EXC ',name, type(e).__name__, str(e)[:300])

# C02: non-contiguous slide names: build deck by renaming members
def make_noncontig():
    prs=Presentation()
    for i in range(3): prs.slides.add_slide(prs.slide_layouts[6]).shapes.add_textbox(0,0,10,10).text_frame.text='S%d'%(i+1)
    prs.slides[0].notes_slide.notes_text_frame.text='n1'
    b=io.BytesIO(); prs.save(b)
    zin=zipfile.ZipFile(b); out=io.BytesIO(); zout=zipfile.ZipFile(out,'w')
    ren={'slide1.xml':'slide7.xml','slide2.xml':'slide3.xml','slide3.xml':'slide1.xml'}
    def rn(s):
        return re.sub(r'slide(\d)\.xml', lambda m: 'slide%s.xml'%{'1':'7','2':'3','3':'1'}[m.group(1)], s)
    for n in zin.namelist():
        data=zin.read(n)
        if n.endswith('.rels') or n=='[Content_Types].xml':
            data=re.sub(rb'slides/slide(\d)\.xml', lambda m: b'slides/slide%s.xml'%{b'1':b'7',b'2':b'3',b'3':b'1'}[m.group(1)], data)
            data=re.sub(rb'Target="slide(\d)\.xml', lambda m: b'Target="slide%s.xml'%{b'1':b'7',b'2':b'3',b'3':b'1'}[m.group(1)], data)
        nn=n
        if 'slides/' in n and 'notesSlides' not in n: nn=rn(n)
        zout.writestr(nn,data)
    zout.close(); return out.getvalue()
blob=make_noncontig()
print([n for n in zipfile.ZipFile(io.BytesIO(blob)).namelist() if 'slides/' in n])
def closure(b):
    z=zipfile.ZipFile(io.BytesIO(b)); names=set(z.namelist()); bad=[]
    import posixpath
    for n in names:
        if n.endswith('.rels'):
            d=posixpath.dirname(posixpath.dirname(n))
            for r in etree.fromstring(z.read(n)):
                if r.get('TargetMode')=='External': continue
                t=posixpath.normpath(posixpath.join('/'+d, r.get('Target')))[1:]
                if t not in names: bad.append((n,r.get('Id'),r.get('Target')))
    return bad
def c02():
    prs=Presentation(io.BytesIO(blob))
    b1=io.BytesIO(); prs.save(b1)
    print('first save closure', closure(b1.getvalue()))
    _=[s.shapes[0].text_frame.text for s in prs.slides]
    print(_)
    b2=io.BytesIO(); prs.save(b2)
    bad=closure(b2.getvalue())
    print('second save closure', bad)
    try:
        p3=Presentation(io.BytesIO(b2.getvalue())); print('reopen slides', [s.shapes[0].text_frame.text for s in p3.slides])
    except Exception as e: print('reopen EXC', type(e).__name__, e)
T('c02 stale', c02)
