import sys, io, zipfile
sys.path.insert(0,'/tmp/scratch/deps')
import atheris
with atheris.instrument_imports(include=['pptx']):
    import pptx
    from pptx import Presentation
from pptx.exc import PackageNotFoundError
from lxml.etree import XMLSyntaxError
base=open('/repo/tests/test_files/minimal.pptx','rb').read()
zin=zipfile.ZipFile(io.BytesIO(base)); members=[(n,zin.read(n)) for n in zin.namelist()]
n=0
def target(data):
    global n
    fdp=atheris.FuzzedDataProvider(data)
    ms=list(members)
    k=fdp.ConsumeIntInRange(0,3)
    for _ in range(k):
        i=fdp.ConsumeIntInRange(0,len(ms)-1); op=fdp.ConsumeIntInRange(0,3)
        name,blob=ms[i]
        if op==0: ms.pop(i)
        elif op==1:
            pos=fdp.ConsumeIntInRange(0,max(0,len(blob)-1)); rep=fdp.ConsumeBytes(fdp.ConsumeIntInRange(0,8))
            ms[i]=(name, blob[:pos]+rep+blob[pos+len(rep):])
        elif op==2: ms[i]=(name+'x',blob)
        else: ms[i]=(name, blob[:fdp.ConsumeIntInRange(0,len(blob))])
        if not ms: break
    b=io.BytesIO(); z=zipfile.ZipFile(b,'w')
    for nm,bl in ms: z.writestr(nm,bl)
    z.close()
    try:
        prs=Presentation(io.BytesIO(b.getvalue()))
        out=io.BytesIO(); prs.save(out)
    except (KeyError, ValueError, zipfile.BadZipFile, XMLSyntaxError) as e:
        pass
atheris.Setup(sys.argv, target)
atheris.Fuzz()
