import itertools, collections, copy
from pptx import Presentation
from lxml import etree
prs=Presentation(); sl=prs.slides.add_slide(prs.slide_layouts[6])
res=collections.Counter()
def rects(r,c):
    for r1 in range(r):
        for r2 in range(r1,r):
            for c1 in range(c):
                for c2 in range(c1,c):
                    yield (r1,c1,r2,c2)
def overlap(a,b): return not (a[2]<b[0] or b[2]<a[0] or a[3]<b[1] or b[3]<a[1])
def check(tbl, model, r, c, texts):
    # model: list of rects (size>1)
    for i in range(r):
        assert len(tbl.rows[i].cells)==c
    for i in range(r):
        for j in range(c):
            cell=tbl.cell(i,j)
            owner=[m for m in model if m[0]<=i<=m[2] and m[1]<=j<=m[3]]
            if owner:
                m=owner[0]
                if (i,j)==(m[0],m[1]):
                    if not cell.is_merge_origin or cell.is_spanned or (cell.span_height,cell.span_width)!=(m[2]-m[0]+1,m[3]-m[1]+1): return ('origin',i,j,m)
                else:
                    if cell.is_merge_origin or not cell.is_spanned: return ('spanned',i,j,m)
            else:
                if cell.is_merge_origin or cell.is_spanned: return ('free',i,j)
            exp=texts[(i,j)]
            if cell.text!=exp: return ('text',i,j,cell.text,exp)
    return None
n=0
for r,c in itertools.product(range(1,4),range(1,4)):
    ops=[('m',)+x for x in rects(r,c)]+[('s',i,j) for i in range(r) for j in range(c)]
    for seq in itertools.product(ops, repeat=2):
        gf=sl.shapes.add_table(r,c,0,0,1000,1000); tbl=gf.table
        texts={}
        for i in range(r):
            for j in range(c): tbl.cell(i,j).text='%d%d'%(i,j); texts[(i,j)]='%d%d'%(i,j)
        model=[]
        for op in seq:
            n+=1
            if op[0]=='m':
                _,r1,c1,r2,c2=op
                rect=(r1,c1,r2,c2)
                # does range contain merged cell
                bad=any(overlap(rect,m) for m in model)
                before=etree.tostring(tbl._tbl)
                try:
                    tbl.cell(r1,c1).merge(tbl.cell(r2,c2)); ok=True
                except ValueError: ok=False
                if bad:
                    if ok: res[('accepted overlapping',r,c,seq)]+=1
                    elif etree.tostring(tbl._tbl)!=before: res[('reject changed',)]+=1
                else:
                    if not ok: res[('rejected valid',r,c,seq)]+=1; continue
                    if (r1,c1)!=(r2,c2):
                        model.append(rect)
                        parts=[texts[(i,j)] for i in range(r1,r2+1) for j in range(c1,c2+1) if texts[(i,j)]!='']
                        for i in range(r1,r2+1):
                            for j in range(c1,c2+1): texts[(i,j)]=''
                        texts[(r1,c1)]='\n'.join(parts)
            else:
                _,i,j=op
                m=[m for m in model if (m[0],m[1])==(i,j)]
                try: tbl.cell(i,j).split(); ok=True
                except ValueError: ok=False
                if m:
                    if not ok: res['split rejected']+=1
                    else: model.remove(m[0])
                else:
                    if ok: res[('split accepted nonorigin',r,c,seq)]+=1
            e=check(tbl,model,r,c,texts)
            if e: res[('inv',r,c,str(seq),str(e))]+=1; break
        sl.shapes._spTree.remove(gf._element)
print(n,'ops')
for k,v in list(res.items())[:20]: print(v,k)
print(len(res))
