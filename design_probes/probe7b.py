import io, glob, collections, copy
from lxml import etree
from pptx import Presentation
from pptx.chart.data import CategoryChartData, XyChartData, BubbleChartData
from pptx.enum.chart import XL_CHART_TYPE as X
C='http://schemas.openxmlformats.org/drawingml/2006/chart'
DATA={'{%s}%s'%(C,t) for t in ('tx','cat','val','xVal','yVal','bubbleSize')}
def skeleton(cs):
    cs=copy.deepcopy(cs)
    sers=cs.xpath('.//c:ser')
    for s in sers:
        for ch in list(s):
            if ch.tag in DATA: s.remove(ch)
    return cs
def c14(e): return etree.tostring(e, method='c14n')
res=collections.Counter()
XY=(X.XY_SCATTER,X.XY_SCATTER_LINES,X.XY_SCATTER_LINES_NO_MARKERS,X.XY_SCATTER_SMOOTH,X.XY_SCATTER_SMOOTH_NO_MARKERS)
BU=(X.BUBBLE,X.BUBBLE_THREE_D_EFFECT)
n=0
for f in sorted(glob.glob('/repo/features/steps/test_files/cht-*.pptx'))+['/repo/features/steps/test_files/shp-access-chart.pptx']:
    prs=Presentation(f)
    for sl in prs.slides:
        for sh in sl.shapes:
            if not sh.has_chart: continue
            ch=sh.chart; n+=1
            try: ct=ch.chart_type
            except Exception as e: res[('ctype',type(e).__name__)]+=1; continue
            nser=len(ch._chartSpace.xpath('.//c:ser'))
            for newn in (nser, max(1,nser-1), nser+2):
                ch2=ch  # cumulative
                if ct in XY:
                    cd=XyChartData()
                    for i in range(newn): s=cd.add_series('N%d'%i); s.add_data_point(1,2); s.add_data_point(3,None)
                elif ct in BU:
                    cd=BubbleChartData()
                    for i in range(newn): s=cd.add_series('N%d'%i); s.add_data_point(1,2,3)
                else:
                    cd=CategoryChartData(); cd.categories=['p','q','r']
                    for i in range(newn): cd.add_series('N%d'%i,(1,None,3))
                before=skeleton(ch._chartSpace); bs=before.xpath('.//c:ser')
                try: ch.replace_data(cd)
                except Exception as e: res[('EXC',f.split('/')[-1],str(ct),newn,type(e).__name__,str(e)[:60])]+=1; continue
                after=skeleton(ch._chartSpace); as_=after.xpath('.//c:ser')
                keep=min(len(bs),len(as_))
                same=all(c14(bs[i])==c14(as_[i]) for i in range(keep))
                res[('ser_skeleton_same',same)]+=1
                # remove sers and compare rest
                for s in bs+as_: s.getparent().remove(s)
                if c14(before)!=c14(after): res[('rest_diff',f.split('/')[-1],str(ct),len(bs),len(as_))]+=1
                idxs=[int(x) for x in ch._chartSpace.xpath('.//c:ser/c:idx/@val')]; orders=[int(x) for x in ch._chartSpace.xpath('.//c:ser/c:order/@val')]
                if len(set(idxs))!=len(idxs) or len(set(orders))!=len(orders): res[('dup idx/order',f.split('/')[-1],str(ct),tuple(idxs),tuple(orders))]+=1
                names=[''.join(s.xpath('./c:tx//c:v/text()')) for s in ch._chartSpace.xpath('.//c:ser')]
                if names!=['N%d'%i for i in range(newn)]: res[('names',f.split('/')[-1],str(ct),tuple(names)[:4],newn)]+=1
print(n,'charts')
for k,v in res.items(): print(v,k)
