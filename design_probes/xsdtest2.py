import io, zipfile
from lxml import etree
from pptx import Presentation
from pptx.util import Emu, Inches
from pptx.chart.data import CategoryChartData
from pptx.enum.chart import XL_CHART_TYPE
from pptx.enum.shapes import MSO_SHAPE, MSO_CONNECTOR
X='/repo/spec/ISO-IEC-29500-4/xsd/'
wrapper = '''<xsd:schema xmlns:xsd="http://www.w3.org/2001/XMLSchema" targetNamespace="urn:verif:wrapper">
<xsd:import namespace="http://schemas.openxmlformats.org/presentationml/2006/main" schemaLocation="%spml.xsd"/>
<xsd:import namespace="http://schemas.openxmlformats.org/drawingml/2006/main" schemaLocation="%sdml-main.xsd"/>
<xsd:import namespace="http://schemas.openxmlformats.org/drawingml/2006/chart" schemaLocation="%sdml-chart.xsd"/>
</xsd:schema>''' % (X,X,X)
schema = etree.XMLSchema(etree.fromstring(wrapper))
prs = Presentation()
s = prs.slides.add_slide(prs.slide_layouts[5])
sh = s.shapes
sh.add_shape(MSO_SHAPE.ROUNDED_RECTANGLE, 0,0,100,100).text_frame.text="hi\nthere"
sh.add_textbox(1,2,3,4).text_frame.text='a\vb'
sh.add_connector(MSO_CONNECTOR.STRAIGHT, 5,5,1,1)
sh.add_picture('/repo/tests/test_files/python-icon.jpeg', 0,0)
cd = CategoryChartData(); cd.categories=['a','b']; cd.add_series('s',(1,2))
sh.add_chart(XL_CHART_TYPE.BAR_CLUSTERED, 0,0,100,100, cd)
sh.add_table(2,2,0,0,100,100)
g=sh.add_group_shape(); g.shapes.add_shape(MSO_SHAPE.OVAL,1,1,1,1)
sh.add_movie('/repo/tests/test_files/dummy.mp4',0,0,10,10)
from pptx.enum.shapes import PROG_ID
sh.add_ole_object('/repo/features/steps/test_files/shp-embedded-xlsx.xlsx', PROG_ID.XLSX, 0,0)
fb = sh.build_freeform(); fb.add_line_segments([(1,1),(2,5)]); fb.convert_to_shape()
s.notes_slide.notes_text_frame.text='notes'
buf=io.BytesIO(); prs.save(buf)
z=zipfile.ZipFile(buf)
for n in z.namelist():
    if n.endswith('.xml') and (n.startswith('ppt/slides/') or n.startswith('ppt/charts') or n.startswith('ppt/notes')):
        doc=etree.fromstring(z.read(n))
        ok=schema.validate(doc)
        print(n, doc.tag, ok)
        for e in schema.error_log: print('   ',str(e)[:300])
