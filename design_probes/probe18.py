import io, zipfile, datetime
from lxml import etree
from pptx import Presentation
src=etree.parse('/repo/spec/ISO-IEC-29500-2/opc-xsd/opc-coreProperties.xsd')
XS='{http://www.w3.org/2001/XMLSchema}'
for imp in src.getroot().iter(XS+'import'):
    ns=imp.get('namespace')
    loc={'http://purl.org/dc/elements/1.1/':'dc.xsd','http://purl.org/dc/terms/':'dcterms.xsd','http://www.w3.org/XML/1998/namespace':'xml.xsd'}[ns]
    imp.set('schemaLocation','/tmp/scratch/schemas/'+loc)
# need base url so relative imports inside stubs resolve: they use relative names in same dir -> absolute from file
schema=etree.XMLSchema(src)
print('compiled')
def val(prs):
    b=io.BytesIO(); prs.save(b); core=zipfile.ZipFile(b).read('docProps/core.xml')
    doc=etree.fromstring(core); ok=schema.validate(doc)
    return ok, [e.message[:150] for e in schema.error_log], core[:600]
prs=Presentation(); cp=prs.core_properties
print(val(prs)[:2])
cp.title=' '; cp.author='a&<b>"\r\n'; cp.keywords='k1, k2'; cp.created=datetime.datetime(2020,1,2,3,4,5,678); cp.last_printed=datetime.datetime(1999,12,31,23,59,59); cp.revision=7
print(val(prs)[:2])
cp.modified=datetime.datetime(999,1,1)
ok,errs,core=val(prs); print(ok,errs); 
b=io.BytesIO(); prs.save(b); p2=Presentation(io.BytesIO(b.getvalue())).core_properties
print(repr(p2.title), repr(p2.author), p2.created, p2.modified, p2.revision)
for f in ['/repo/features/steps/test_files/prs-properties.pptx','/repo/tests/test_files/no-core-props.pptx']:
    p=Presentation(f); print(f.split('/')[-1], val(p)[:2])
