import io, zipfile
from lxml import etree
from pptx.opc.package import OpcPackage
from pptx.package import Package
import pptx
CT='<?xml version="1.0" encoding="UTF-8" standalone="yes"?><Types xmlns="http://schemas.openxmlformats.org/package/2006/content-types">%s</Types>'
RELS='<?xml version="1.0" encoding="UTF-8" standalone="yes"?><Relationships xmlns="http://schemas.openxmlformats.org/package/2006/relationships">%s</Relationships>'
def rel(i,t,target,ext=False): return '<Relationship Id="%s" Type="%s" Target="%s"%s/>'%(i,t,target,' TargetMode="External"' if ext else '')
PS='application/vnd.openxmlformats-officedocument.presentationml.printerSettings'
SS='application/vnd.openxmlformats-officedocument.spreadsheetml.printerSettings'
def build(members):
    b=io.BytesIO(); z=zipfile.ZipFile(b,'w')
    for n,d in members.items(): z.writestr(n,d)
    z.close(); return b.getvalue()
m={
 '[Content_Types].xml': CT%('<Default Extension="rels" ContentType="application/vnd.openxmlformats-package.relationships+xml"/><Default Extension="XML" ContentType="application/xml"/>'
    '<Override PartName="/a/p1.bin" ContentType="%s"/><Override PartName="/a/b/p2.BIN" ContentType="%s"/><Override PartName="/root.dat" ContentType="foo/bar"/><Default Extension="png" ContentType="image/png"/>'%(PS,SS)),
 '_rels/.rels': RELS%(rel('rId1','http://t/main','a/main.xml')+rel('rIdX','http://t/ext','http://example.com/?a=1&amp;b=2',True)+rel('r2','http://t/root','/root.dat')),
 'a/main.xml': b'<x/>',
 'a/_rels/main.xml.rels': RELS%(rel('rId1','http://t/ps','p1.bin')+rel('rId2','http://t/ps','b/p2.BIN')+rel('rId3','http://t/self','main.xml')+rel('rId10','http://t/img','./b/../b/i.PNG')+rel('rId9','http://t/root','../root.dat')),
 'a/p1.bin': b'\x00\x01', 'a/b/p2.BIN': b'\x02', 'root.dat': b'zz', 'a/b/i.PNG': b'\x89PNG....',
 'a/b/_rels/i.PNG.rels': RELS%(rel('rId1','http://t/back','../main.xml')),
 'orphan.xml': b'<o/>',
}
blob=build(m)
pkg=OpcPackage.open(io.BytesIO(blob))
for p in pkg.iter_parts(): print(p.partname, p.content_type, type(p).__name__, [ (r.rId,r.reltype,r.is_external, r.target_ref) for r in p.rels.values()])
out=io.BytesIO(); pkg.save(out)
z=zipfile.ZipFile(out)
print(z.namelist())
print(z.read('[Content_Types].xml').decode())
print(z.read('a/_rels/main.xml.rels').decode())
out2=io.BytesIO(); OpcPackage.open(io.BytesIO(out.getvalue())).save(out2)
z2=zipfile.ZipFile(out2)
print('fixpoint', {n: z.read(n)==z2.read(n) for n in z.namelist()}, set(z.namelist())==set(z2.namelist()))
