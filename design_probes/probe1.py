import io, zipfile, traceback, shutil, os
from pptx import Presentation
from pptx.chart.data import CategoryChartData, XyChartData
from pptx.enum.chart import XL_CHART_TYPE
from pptx.enum.shapes import MSO_SHAPE
def T(name, f):
    try:
        r=f(); print('OK  ',name, repr(r)[:200])
    except Exception as e:
        print('EXC ',name, type(e).__name__, str(e)[:200])
prs=Presentation(); s=prs.slides.add_slide(prs.slide_layouts[6]); sh=s.shapes
def c07_empty_label():
    cd=CategoryChartData(); cd.categories=['', 'b', ' ']; cd.add_series('s',(1,2,3))
    ch=sh.add_chart(XL_CHART_TYPE.BAR_CLUSTERED,0,0,10,10,cd).chart
    return list(ch.plots[0].categories)
T('c07 empty label', c07_empty_label)
def c05_numfmt():
    cd=CategoryChartData(number_format='[<100]0;0.0'); cd.categories=['a']; cd.add_series('s',(1,))
    return sh.add_chart(XL_CHART_TYPE.BAR_CLUSTERED,0,0,10,10,cd)
T('c05 numfmt <', c05_numfmt)
def c05_numfmt2():
    cd=CategoryChartData(number_format='0 "R&D"'); cd.categories=['a']; cd.add_series('s',(1,))
    return sh.add_chart(XL_CHART_TYPE.BAR_CLUSTERED,0,0,10,10,cd)
T('c05 numfmt &', c05_numfmt2)
os.makedirs('imgs',exist_ok=True)
shutil.copy('/repo/tests/test_files/python-icon.jpeg','imgs/a"b.jpeg')
shutil.copy('/repo/tests/test_files/python-icon.jpeg','imgs/a&b<c>.jpeg')
shutil.copy('/repo/tests/test_files/dummy.mp4','imgs/a&b.mp4')
T('c05 pic quote', lambda: sh.add_picture('imgs/a"b.jpeg',0,0)._element.xpath('.//p:cNvPr/@descr'))
T('c05 pic amp', lambda: sh.add_picture('imgs/a&b<c>.jpeg',0,0)._element.xpath('.//p:cNvPr/@descr'))
T('c05 movie amp', lambda: sh.add_movie('imgs/a&b.mp4',0,0,1,1).name)
T('c05 ole progid', lambda: sh.add_ole_object('/repo/features/steps/test_files/shp-embedded-xlsx.xlsx','A"B&C',0,0).ole_format.prog_id)
s2=prs.slides.add_slide(prs.slide_layouts[8])
for ph in s2.placeholders: print(ph.placeholder_format.idx, ph.placeholder_format.type, type(ph).__name__)
T('c05 ph pic amp', lambda: s2.placeholders[1].insert_picture('imgs/a&b<c>.jpeg').name)
def sername():
    cd=CategoryChartData(); cd.categories=['a&<"\'>]]>']; cd.add_series('s&<">]]>',(1,))
    ch=sh.add_chart(XL_CHART_TYPE.BAR_CLUSTERED,0,0,10,10,cd).chart
    return list(ch.plots[0].categories), [x.name for x in ch.series]
T('c05 ser name',sername)
