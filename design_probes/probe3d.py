import glob, io
from lxml import etree
from pptx import Presentation
from pptx.util import Pt
exec(open('probe3b.py').read().split("found=collections.Counter()")[0])
hits=0
for f in sorted(glob.glob('/repo/features/steps/test_files/cht-*.pptx')):
    prs=Presentation(f)
    for sl in prs.slides:
        for sh in sl.shapes:
            if not sh.has_chart: continue
            ch=sh.chart
            try: pl=ch.plots[0]; sers=list(pl.series)
            except Exception: continue
            for s in sers[:1]:
                for variant in ('ser.marker','pt.marker','pt.format+marker'):
                    p2=Presentation(f); ch2=[x for x in p2.slides[prs.slides.index(sl)].shapes if x.has_chart and x.shape_id==sh.shape_id][0].chart
                    s2=list(ch2.plots[0].series)[0]
                    before=errs(ch2.part)
                    try:
                        if variant=='ser.marker':
                            if not hasattr(s2,'marker'): continue
                            s2.marker.size=5; s2.marker.format.fill.solid()
                        elif variant=='pt.marker':
                            pt=s2.points[0]; pt.marker.size=5
                        else:
                            pt=s2.points[0]; pt.format.fill.solid(); pt.marker.size=5; pt.marker.format.fill.solid()
                    except Exception as e:
                        continue
                    new=errs(ch2.part)-before
                    new={e for e in new if 'axId' not in e and 'crossAx' not in e}
                    if new and hits<6:
                        hits+=1
                        print(f.split('/')[-1], type(s2).__name__, variant, list(new)[0][:300])
                        ser=s2._element
                        print('   ser children', [etree.QName(c).localname for c in ser])
                        for d in ser.xpath('./c:dPt'): print('   dPt children', [etree.QName(c).localname for c in d])
