import io, glob, collections
from pptx import Presentation
from pptx.enum.shapes import MSO_SHAPE, PP_PLACEHOLDER
def T(name, f):
    try:
        r=f(); print('OK  ',name, repr(r)[:400])
    except Exception as e:
        print('EXC ',name, type(e).__name__, str(e)[:300])
def turbo():
    prs=Presentation(); s=prs.slides.add_slide(prs.slide_layouts[6]); sh=s.shapes
    sh.add_shape(MSO_SHAPE.OVAL,0,0,1,1)
    sh.turbo_add_enabled=True
    g=sh.add_group_shape()
    a=sh.add_shape(MSO_SHAPE.OVAL,0,0,1,1)
    fb=sh.build_freeform(); fb.add_line_segments([(1,1),(2,2)]); f=fb.convert_to_shape()
    b=sh.add_shape(MSO_SHAPE.OVAL,0,0,1,1)
    return [x.shape_id for x in sh]
T('turbo', turbo)
# C13 over corpus
bad=collections.Counter(); n=0
LAT=(PP_PLACEHOLDER.DATE,PP_PLACEHOLDER.FOOTER,PP_PLACEHOLDER.SLIDE_NUMBER)
for f in sorted(glob.glob('/repo/features/steps/test_files/*.pptx'))+['/repo/src/pptx/templates/default.pptx']:
    try: prs=Presentation(f)
    except Exception as e: print('open fail',f,e); continue
    for m in prs.slide_masters:
        for li,l in enumerate(m.slide_layouts):
            n+=1
            try:
                before=len(prs.slides)
                s=prs.slides.add_slide(l)
                exp=[ph for ph in l.placeholders if ph.element.ph_type not in LAT]
                got=[sh for sh in s.shapes if sh.is_placeholder]
                if len(exp)!=len(got): bad[('count',f.split('/')[-1],li)]+=1; continue
                for e,g in zip(exp,got):
                    ee,ge=e.element,g.element
                    if (ee.ph_type,ee.ph_idx,ee.ph_orient,ee.ph_sz)!=(ge.ph_type,ge.ph_idx,ge.ph_orient,ge.ph_sz): bad[('attrs',f.split('/')[-1],li)]+=1
                    try:
                        if (g.left,g.top,g.width,g.height)!=(e.left,e.top,e.width,e.height): bad[('geom',f.split('/')[-1],li,str(ee.ph_type), ee.ph_idx)]+=1
                    except Exception as ex:
                        bad[('geomEXC',f.split('/')[-1],li,type(ex).__name__,str(ex)[:50])]+=1
                names=[g.name for g in got]
                if len(set(names))!=len(names): bad[('names',f.split('/')[-1],li,tuple(names))]+=1
                if prs.slides[-1]!=s or len(prs.slides)!=before+1: bad[('order',f)]+=1
                if s.slide_layout!=l: bad[('layout',f)]+=1
            except Exception as ex:
                bad[('EXC',f.split('/')[-1],li,type(ex).__name__,str(ex)[:80])]+=1
print(n,'layouts'); 
for k,v in bad.items(): print(v,k)
