import re, itertools, sys
from cm import *
import pptx
from pptx.oxml import element_class_lookup
from pptx.oxml.ns import _nsmap, pfxmap, qn
from pptx.oxml.xmlchemy import _BaseChildElement, Choice, ZeroOrOne, ZeroOrMore, OneOrMore, ZeroOrOneChoice, OxmlElement, BaseOxmlElement
import pptx.opc.oxml
S=Schemas(); ET=S.element_types()
# registered classes: walk namespaces
reg={}
for pfx,uri in _nsmap.items():
    try: nsobj=element_class_lookup.get_namespace(uri)
    except Exception: continue
    for local,cls in nsobj.items():
        reg[(uri,local.decode() if isinstance(local,bytes) else local)]=cls
print(len(reg),'registered')
def decls(cls):
    out={}
    for name in dir(cls):
        if name.startswith('_insert_') or name.startswith('_add_') or name.startswith('get_or_add_') or name.startswith('get_or_change_to_'):
            f=getattr(cls,name)
            clo=getattr(f,'__closure__',None)
            if not clo: continue
            for c in clo:
                try: v=c.cell_contents
                except ValueError: continue
                if isinstance(v,_BaseChildElement):
                    out.setdefault(v._nsptagname,{'decl':v,'methods':set()})['methods'].add(name)
    return out
total=0; bad=[]; nocm=0; cases=0
for (uri,local),cls in sorted(reg.items()):
    d=decls(cls)
    if not d: continue
    types=ET.get((uri,local),set())
    if not types: nocm+=1; continue
    for ty in types:
        cm=S.content(ty)
        if cm is None: continue
        nm=names(cm); uniq=list(dict.fromkeys(nm))
        codes={n:chr(0x100+i) for i,n in enumerate(uniq)}
        rx=re.compile(to_regex(cm, lambda n: codes[n]))
        for tag,info in d.items():
            pfx,l=tag.split(':'); q=(_nsmap[pfx],l)
            if q not in codes: continue
            total+=1
            # contexts: each single other child; all earlier; all later; all
            # canonical max sequence: first alternative for choices
            def canon(p, pick):
                k=p[0]
                if k=='el': return [p[1]]
                if k=='any': return []
                if k=='seq':
                    r=[]
                    for s in p[1]: r+=canon(s,pick)
                    return r
                if k=='choice':
                    # choose alternative containing pick if any else first
                    for s in p[1]:
                        if pick in names(s): return canon(s,pick)
                    return canon(p[1][0],pick) if p[1] else []
            M=canon(cm,q)
            if q not in M: continue
            i=M.index(q)
            ctxs=[M[:i], M[i+1:], M[:i]+M[i+1:]]+[[y] for y in uniq if y!=q]
            meths=info['methods']
            for ctx in ctxs:
                # context must itself be valid and admit q somewhere
                s=''.join(codes[c] for c in ctx)
                if not rx.fullmatch(s): continue
                if not any(rx.fullmatch(s[:j]+codes[q]+s[j:]) for j in range(len(s)+1)): continue
                for m in sorted(meths):
                    if m.startswith('_insert_'): continue
                    parent=OxmlElement('%s:%s'%(pfxmap[uri],local))
                    for c in ctx:
                        parent.append(OxmlElement('%s:%s'%(pfxmap[c[0]],c[1])) if c[0] in pfxmap else etree.Element('{%s}%s'%c))
                    try: getattr(parent,m)()
                    except Exception as e:
                        bad.append(('EXC',local,ty[1],tag,m,[c[1] for c in ctx],type(e).__name__)); continue
                    cases+=1
                    seq=[]
                    ok=True
                    for ch in parent:
                        t=etree.QName(ch); key=(t.namespace,t.localname)
                        if key not in codes: ok=False; break
                        seq.append(codes[key])
                    if not ok or not rx.fullmatch(''.join(seq)):
                        bad.append(('ORDER',local,ty[1],tag,m,[c[1] for c in ctx],[etree.QName(ch).localname for ch in parent]))
print('decl×type',total,'cases',cases,'nocm',nocm,'bad',len(bad))
seen=set()
for b in bad:
    key=b[:5]
    if key in seen: continue
    seen.add(key); print(b)
print(len(seen),'distinct (class,type,child,method)')
