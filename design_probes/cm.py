"""scratch: XSD content model extraction"""
from lxml import etree
import os, re, itertools
XS='http://www.w3.org/2001/XMLSchema'
Q=lambda n:'{%s}%s'%(XS,n)
XSD_DIR='/repo/spec/ISO-IEC-29500-4/xsd/'
class Schemas:
    def __init__(self):
        self.types={}   # (ns,name)-> element
        self.groups={}
        self.elems={}   # global elements (ns,name)->elem
        self.nsmap_of={}
        for fn in os.listdir(XSD_DIR):
            if not fn.endswith('.xsd'): continue
            root=etree.parse(XSD_DIR+fn).getroot()
            tns=root.get('targetNamespace')
            for ch in root:
                if not isinstance(ch.tag,str): continue
                n=ch.get('name')
                if ch.tag==Q('complexType'): self.types[(tns,n)]=ch
                elif ch.tag==Q('group'): self.groups[(tns,n)]=ch
                elif ch.tag==Q('element'): self.elems[(tns,n)]=ch
    def qname(self, elem, s):
        if ':' in s:
            p,l=s.split(':'); return (elem.nsmap[p], l)
        return (elem.nsmap.get(None) , s)
    def tns(self, elem):
        return elem.getroottree().getroot().get('targetNamespace')
    # particle: ('seq',[..],min,max) ('choice',[..],min,max) ('el',(ns,name),typeqname,min,max) ('any',min,max)
    def particle(self, node):
        mn=int(node.get('minOccurs','1')); mx=node.get('maxOccurs','1'); mx=None if mx=='unbounded' else int(mx)
        t=node.tag
        if t in (Q('sequence'),Q('choice'),Q('all')):
            kids=[self.particle(c) for c in node if isinstance(c.tag,str) and c.tag in (Q('sequence'),Q('choice'),Q('all'),Q('element'),Q('group'),Q('any'))]
            return ('seq' if t!=Q('choice') else 'choice', kids, mn, mx)
        if t==Q('group'):
            g=self.groups[self.qname(node,node.get('ref'))]
            inner=[c for c in g if isinstance(c.tag,str) and c.tag in (Q('sequence'),Q('choice'),Q('all'))][0]
            p=self.particle(inner)
            return ('seq',[p],mn,mx)
        if t==Q('element'):
            if node.get('ref'):
                qn=self.qname(node,node.get('ref')); ge=self.elems[qn]
                ty=self.qname(ge,ge.get('type')) if ge.get('type') else None
                return ('el',qn,ty,mn,mx)
            ty=self.qname(node,node.get('type')) if node.get('type') else None
            form_ns=self.tns(node)
            return ('el',(form_ns,node.get('name')),ty,mn,mx)
        if t==Q('any'):
            return ('any',mn,mx)
        raise ValueError(t)
    def content(self, tyq):
        ct=self.types.get(tyq)
        if ct is None: return None
        parts=[]
        for c in ct:
            if not isinstance(c.tag,str): continue
            if c.tag in (Q('sequence'),Q('choice'),Q('all'),Q('group')):
                parts.append(self.particle(c))
            elif c.tag==Q('complexContent'):
                for e in c:
                    if e.tag in (Q('extension'),Q('restriction')):
                        base=self.qname(e,e.get('base'))
                        if e.tag==Q('extension'):
                            b=self.content(base)
                            if b: parts.append(b)
                        for cc in e:
                            if isinstance(cc.tag,str) and cc.tag in (Q('sequence'),Q('choice'),Q('all'),Q('group')):
                                parts.append(self.particle(cc))
        return ('seq',parts,1,1)
    def element_types(self):
        """map (ns,name)-> set of type qnames for all element decls"""
        out={}
        for fn in os.listdir(XSD_DIR):
            if not fn.endswith('.xsd'): continue
            root=etree.parse(XSD_DIR+fn).getroot(); tns=root.get('targetNamespace')
            for e in root.iter(Q('element')):
                if e.get('name') and e.get('type'):
                    out.setdefault((tns,e.get('name')),set()).add(self.qname(e,e.get('type')))
        return out
def names(p, acc=None):
    acc=[] if acc is None else acc
    if p[0]=='el': acc.append(p[1])
    elif p[0] in ('seq','choice'):
        for k in p[1]: names(k,acc)
    return acc
def to_regex(p, code, relax=True):
    k=p[0]
    if k=='el':
        body=re.escape(code(p[1])); mn,mx=p[3],p[4]
    elif k=='any':
        body='￿'; mn,mx=p[1],p[2]
    else:
        subs=[to_regex(s,code,relax) for s in p[1]]
        body='(?:'+( ''.join(subs) if k=='seq' else '|'.join(subs) if subs else '')+')'
        mn,mx=p[2],p[3]
    if relax: mn=0
    if mx is None: q='*' if mn==0 else '+'
    elif mx==1: q='?' if mn==0 else ''
    else: q='{%d,%d}'%(mn,mx)
    return '(?:%s)%s'%(body,q)
