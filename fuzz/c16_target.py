#!/venv/bin/python
"""Coverage-guided supplement to C16 (atheris / libFuzzer): the fuzzer chooses a base deck, up to 4 faults
from the C16 fault catalogue and the package form; the semantic oracle (checks.c16.run_fault_case) runs inside
the target. Usage: c16_target.py <out_json> <seconds> <seed> [corpus_dir]
Writes {"runs": N, "violations": [{key,message,case}], "distinct_cases": M} to <out_json>."""
import json
import os
import sys
import time

HERE = os.path.dirname(os.path.dirname(os.path.abspath(__file__)))
REPO = os.environ.get("VERIF_REPO", "/repo")
sys.path.insert(0, HERE)
sys.path.insert(0, os.path.join(REPO, "src"))
sys.path.append(os.path.join(HERE, ".deps"))

import atheris  # noqa: E402

with atheris.instrument_imports(include=["pptx"]):
    import pptx  # noqa: F401,E402
    import pptx.opc.package  # noqa: F401,E402
    import pptx.opc.serialized  # noqa: F401,E402

from vlib.core import Violation, load_known, case_hash  # noqa: E402
from checks import c16  # noqa: E402

OUT, SECONDS, SEED = sys.argv[1], float(sys.argv[2]), int(sys.argv[3])
DECKS = [d for d in c16.QUICK_DECKS if os.path.exists(os.path.join(REPO, d))]
LOCS = {}
KNOWN = load_known().get("C16", {})
state = {"runs": 0, "violations": {}, "seen": set(), "t0": time.time()}


def locs(deck):
    if deck not in LOCS:
        LOCS[deck] = c16.fault_locations(c16.load_deck(deck))
    return LOCS[deck]


def flush():
    with open(OUT, "w") as fh:
        json.dump({"runs": state["runs"], "distinct_cases": len(state["seen"]),
                   "violations": list(state["violations"].values())}, fh)


def test_one(data):
    if time.time() - state["t0"] > SECONDS:
        flush()
        os._exit(0)
    fdp = atheris.FuzzedDataProvider(data)
    deck = DECKS[fdp.ConsumeIntInRange(0, len(DECKS) - 1)]
    ll = locs(deck)
    n = fdp.ConsumeIntInRange(1, 4)
    faults = []
    for _ in range(n):
        f = ll[fdp.ConsumeIntInRange(0, len(ll) - 1)]
        if f not in faults:
            faults.append(f)
    form = c16.FORMS[fdp.ConsumeIntInRange(0, 2)]
    case = {"deck": deck, "faults": faults, "form": form}
    state["runs"] += 1
    state["seen"].add(case_hash(case))
    try:
        c16.run_fault_case(case)
    except Violation as v:
        if v.key not in KNOWN and v.key not in state["violations"]:
            state["violations"][v.key] = {"key": v.key, "message": v.message, "case": case}
            flush()


if __name__ == "__main__":
    args = [sys.argv[0], "-seed=%d" % SEED, "-max_len=64", "-max_total_time=%d" % int(SECONDS + 5), "-verbosity=0"]
    if len(sys.argv) > 4:
        args.append(sys.argv[4])
    atheris.Setup(args, test_one)
    try:
        atheris.Fuzz()
    finally:
        flush()
